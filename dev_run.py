import sys, time, importlib
sys.path.insert(0, '/verif')
from pyvc.source import SourceIndex
from pyvc.contract import REGISTRY, Registry
from pyvc import verify
mods = sys.argv[1].split(',')
for m in mods:
    importlib.import_module('contracts.' + m)
only = sys.argv[2].split(',') if len(sys.argv) > 2 else None
index = SourceIndex(extra_roots=[('/verif/contracts', 'contracts')])
reg = Registry(index)
for name, ci in REGISTRY.items():
    if only and name not in only:
        continue
    t0 = time.time()
    rep, obs = verify.explore(index, reg, ci, 'DEV')
    t1 = time.time()
    verify.discharge(rep, obs, '/verif/out/smt/dev', 10.0)
    bad = [r for r in rep.results if r.query.verdict != r.query.expect]
    print(f'{name}: paths={rep.paths} infeasible={rep.infeasible} obligations={len(rep.results)} failed={len(bad)} unsupported={rep.unsupported} symex={t1-t0:.1f}s solve={time.time()-t1:.1f}s inlined={sorted(rep.inlined)}')
    seen = set()
    for r in bad:
        if r.ob.oid in seen: continue
        seen.add(r.ob.oid)
        print('   FAIL', r.full_id, r.query.verdict, r.ob.note, {k: v for k, v in r.query.model.items() if '!' not in k})
        if r.query.verdict == 'sat' and ci.kind == 'function':
            kind, label = r.ob.oid.split(':', 1)
            print('      replay:', verify.replay(ci, kind, label, r.query.model))
