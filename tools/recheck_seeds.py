#!/usr/bin/env python3
"""Re-runs the checks of every seeded change (applies seeded/<id>/patch.diff to /repo, runs ./check <property>, undoes it) and records
the outcome in seeded/<id>/meta.json under `checks_run_final` (the first evaluation stays under `checks_run`)."""
import json, os, subprocess, sys, glob
VERIF = os.path.dirname(os.path.dirname(os.path.abspath(__file__)))
EXTRA = {'C05-1': ['C11'], 'C07-1': ['C19'], 'C02-1': ['C20'], 'C06-1': ['C02'], 'C13-1': ['C10'], 'C04-1': ['C05'], 'C08-1': ['C02'], 'C14-1': ['C11']}
only = sys.argv[1:]
rows = []
for d in sorted(glob.glob(os.path.join(VERIF, 'seeded', '*'))):
    sid = os.path.basename(d)
    if only and sid not in only:
        continue
    meta = json.load(open(os.path.join(d, 'meta.json')))
    props = [meta['property']] + EXTRA.get(sid, [])
    assert subprocess.run(['git', '-C', '/repo', 'status', '--porcelain', '--untracked-files=no'], capture_output=True, text=True).stdout.strip() == '', '/repo not clean'
    subprocess.run(['git', '-C', '/repo', 'apply', os.path.join(d, 'patch.diff')], check=True)
    final = []
    try:
        for p in props:
            r = subprocess.run(['./check', p, '-q'], cwd=VERIF, capture_output=True, text=True)
            viol = [l for l in r.stdout.splitlines() if l.startswith('VIOLATION')]
            open(os.path.join(d, f'check_{p}.txt'), 'w').write(r.stdout + r.stderr)
            final.append({'property': p, 'exit': r.returncode, 'violations': len(viol),
                          'obligations': [v.split('replay=')[1].split('/')[-1].replace('.json', '') for v in viol][:6]})
    finally:
        subprocess.run(['git', '-C', '/repo', 'checkout', '--', '.'], check=True)
    meta['checks_run_final'] = final
    json.dump(meta, open(os.path.join(d, 'meta.json'), 'w'), indent=1)
    det = [f"{x['property']}:{'DETECTED' if x['exit'] == 1 else 'missed(exit %d)' % x['exit']}" for x in final]
    print(sid, ' '.join(det), flush=True)
