#!/bin/sh
# usage: tools/mutate.sh <prop> <file relative to repo> <sed expression>   -- quick manual mutation run on a scratch copy
set -e
D=$(mktemp -d /tmp/kpmut.XXXXXX)
mkdir -p $D/repo && cp -r /repo/kernpy /repo/README.md $D/repo/
sed -i "$3" $D/repo/$2
if diff -q /repo/$2 $D/repo/$2 >/dev/null; then echo "MUTATION DID NOT APPLY"; rm -rf $D; exit 9; fi
P=$1; F=$2; S=$3; shift 3; cd /verif && KERNPY_REPO=$D/repo ./check $P -q "$@" 2>&1 | grep -v "^  " | tail -8
rm -rf $D
