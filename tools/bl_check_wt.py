#!/usr/bin/env python3
"""usage: bl_check_wt.py <worktree>: the pinned test command run inside a worktree of /repo, compared with BASELINE.json."""
import json, subprocess, sys, tempfile, os, xml.etree.ElementTree as ET
wt = sys.argv[1]
base = json.load(open('/root/.vp/BASELINE.json'))
with tempfile.TemporaryDirectory() as d:
    xml = os.path.join(d, 'r.xml')
    cmd = base['cmd'].replace('<file>', xml).replace('cd /repo', 'cd ' + wt)
    env = dict(os.environ); env.pop('KERNPY_VERIF', None)
    subprocess.run(cmd, shell=True, env=env, stdout=subprocess.DEVNULL, stderr=subprocess.DEVNULL)
    passed = set()
    for tc in ET.parse(xml).getroot().iter('testcase'):
        if not any(ch.tag in ('failure', 'error', 'skipped') for ch in tc):
            passed.add(f"{tc.get('classname')}::{tc.get('name')}")
missing = [t for t in base['stable_pass'] if t not in passed]
print(f'passed={len(passed)} stable_pass={len(base["stable_pass"])} missing={len(missing)}')
for t in missing[:20]:
    print('  MISSING', t)
sys.exit(1 if missing else 0)
