#!/bin/bash
# usage: tools/eval_seed.sh <worktree> <seed id> <property> [more properties...]
# Confirms a seeded change (demo fails with it / passes without it, pinned tests unaffected), then applies it to /repo, runs the
# checks of the given properties, undoes it, and records everything under /verif/seeded/<seed id>/.
WT=$1; ID=$2; shift 2; PROPS="$@"
OUT=/verif/seeded/$ID
mkdir -p $OUT
cp $WT/seed_out/demo.py $OUT/ 2>/dev/null
cp $WT/seed_out/meta.json $OUT/meta.agent.json 2>/dev/null
cd $WT
git diff -- kernpy > $OUT/patch.diff
( cd $WT && /venv/bin/python seed_out/demo.py > $OUT/demo_with.txt 2>&1 ); WITH=$?
# (git stash is shared by all worktrees of a repository: use the reverse patch instead)
git apply -R $OUT/patch.diff
( cd $WT && /venv/bin/python seed_out/demo.py > $OUT/demo_without.txt 2>&1 ); WITHOUT=$?
git apply $OUT/patch.diff
BL=$(/venv/bin/python /tmp/bl_check.py $WT | head -1)
echo "demo with change: exit $WITH; without: exit $WITHOUT; tests: $BL"
RES=""
cd /verif
if git -C /repo apply --check $OUT/patch.diff 2>/dev/null; then
  git -C /repo apply $OUT/patch.diff
  for P in $PROPS; do
    ./check $P -q > $OUT/check_$P.txt 2>&1; RC=$?
    N=$(grep -c '^VIOLATION' $OUT/check_$P.txt)
    echo "check $P: exit $RC, $N VIOLATION line(s)"; grep '^VIOLATION' $OUT/check_$P.txt | head -4 | sed 's/^/    /'
    RES="$RES{\"property\": \"$P\", \"exit\": $RC, \"violations\": $N},"
  done
  git -C /repo checkout -- .
else
  echo "PATCH DOES NOT APPLY to /repo"
fi
python3 - <<PY
import json, os
out = '$OUT'
agent = json.load(open(out + '/meta.agent.json')) if os.path.exists(out + '/meta.agent.json') else {}
meta = {'id': '$ID', 'property': agent.get('property', '$PROPS'.split()[0]), 'summary': agent.get('summary'), 'needs': agent.get('needs'),
        'files': agent.get('files'), 'confirmed': {'demo_exit_with_change': $WITH, 'demo_exit_without_change': $WITHOUT, 'pinned_tests': '$BL'},
        'checks_run': json.loads('[' + '''$RES'''.rstrip(',') + ']'),
        'ran': ['demo.py with and without the change in the scratch worktree', '/tmp/bl_check.py <worktree>', 'git -C /repo apply patch.diff; ./check <property> -q; git -C /repo checkout -- .']}
json.dump(meta, open(out + '/meta.json', 'w'), indent=1)
PY
git -C /repo status --short | head -3
