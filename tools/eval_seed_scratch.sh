#!/bin/bash
# usage: tools/eval_seed_scratch.sh <worktree> <seed id> <property> [more properties...]
# As eval_seed.sh, but the change is applied to a scratch copy of /repo's working tree (KERNPY_REPO points the whole machinery at it),
# so /repo stays untouched and several evaluations can run side by side.
WT=$1; ID=$2; shift 2; PROPS="$@"
OUT=/verif/seeded/$ID
mkdir -p $OUT
cp $WT/seed_out/demo.py $OUT/ 2>/dev/null
cp $WT/seed_out/meta.json $OUT/meta.agent.json 2>/dev/null
( cd $WT && git diff -- kernpy > $OUT/patch.diff )
( cd $WT && /venv/bin/python seed_out/demo.py > $OUT/demo_with.txt 2>&1 ); WITH=$?
( cd $WT && git apply -R $OUT/patch.diff && /venv/bin/python seed_out/demo.py > $OUT/demo_without.txt 2>&1 ); WITHOUT=$?
( cd $WT && git apply $OUT/patch.diff )
BL=$(/venv/bin/python /verif/tools/bl_check_wt.py $WT | head -1)
echo "demo with change: exit $WITH; without: exit $WITHOUT; tests: $BL"
D=$(mktemp -d /tmp/kpseed.XXXXXX)
cp -r /repo/kernpy /repo/README.md $D/
RES=""
if ( cd $D && patch -p1 -s --dry-run < $OUT/patch.diff >/dev/null 2>&1 ); then
  ( cd $D && patch -p1 -s < $OUT/patch.diff )
  cd /verif
  for P in $PROPS; do
    KERNPY_REPO=$D ./check $P -q > $OUT/check_$P.txt 2>&1; RC=$?
    N=$(grep -c '^VIOLATION' $OUT/check_$P.txt)
    echo "check $P: exit $RC, $N VIOLATION line(s)"; grep '^VIOLATION\|^CHECKER\|^UNDECIDED' $OUT/check_$P.txt | head -4 | sed 's/^/    /'
    RES="$RES{\"property\": \"$P\", \"exit\": $RC, \"violations\": $N},"
  done
else
  echo "PATCH DOES NOT APPLY to the current tree"
fi
rm -rf $D
python3 - <<PY
import json, os
out = '$OUT'
agent = json.load(open(out + '/meta.agent.json')) if os.path.exists(out + '/meta.agent.json') else {}
meta = {'id': '$ID', 'property': agent.get('property', '$PROPS'.split()[0]), 'summary': agent.get('summary'), 'needs': agent.get('needs'),
        'files': agent.get('files'), 'confirmed': {'demo_exit_with_change': $WITH, 'demo_exit_without_change': $WITHOUT, 'pinned_tests': '$BL'},
        'checks_run': json.loads('[' + '''$RES'''.rstrip(',') + ']'),
        'ran': ['demo.py with and without the change in the scratch worktree', '/verif/tools/bl_check_wt.py <worktree>', 'patch applied to a scratch copy of /repo; KERNPY_REPO=<copy> ./check <property> -q']}
json.dump(meta, open(out + '/meta.json', 'w'), indent=1)
PY
