#!/usr/bin/env python3
"""Generates /verif/MANIFEST.json from the table below (kept in one place so that it stays valid and consistent)."""
import json, os
VERIF = os.path.dirname(os.path.dirname(os.path.abspath(__file__)))

TECH = 'contract-based deductive verification: sidecar contracts on the real functions, VCs generated from the ast of /repo on every run (pyvc), discharged by z3 / cvc5'
NOTE = ('Trusted: pyvc (ast front end, path enumeration, fold/sort/induction rules), z3 5.1.0 and cvc5 1.0.3, the Python semantics listed as S-* in '
        'DESIGN 2.3 (mathematical ints, code-point strings, insertion-ordered dicts, single thread); per-property assumed contracts are listed in the evidence file.')

CLAIMED = {
    'C09': ('proof', 'All obligations of the base-40 tables (data invariants on the literals), get_chroma, to_transposed, transpose_agnostics, transpose (string API) and the '
                     'exactness / inverse / unison / octave / fourth+fifth lemmas are discharged for every octave and every integer interval (linear integer arithmetic, no bound); '
                     'the property\'s 25,200-case grid is a sub-domain.', '4.9'),
    'C11': ('proof', 'Every TokenCategoryHierarchyMapper query and the TokenCategory delegates are verified against the tree documented in README.md: recursive helpers per '
                     'sub-dictionary of the extracted literal, categories symbolic over the enum, include/exclude as symbolic bit-sets (all 2^37 x 2^37 pairs) in every argument shape.', '4.11'),
    'C16': ('proof', 'import_pitch / _parse_pitch / export_pitch and the two round-trip lemmas plus the double-export lemma over run-length strings with symbolic repetition counts '
                     '(every octave, |alteration| <= 3); frame obligations on every heap write prove that exporting does not alter the pitch; the history lemma import_twice proves that an importer object used again neither changes a pitch it handed out earlier nor answers differently from a new one.', '4.16'),
}

PENDING = {}
for i in range(1, 21):
    pid = f'C{i:02d}'
    if pid not in CLAIMED:
        PENDING[pid] = 'check under construction in this session (contracts not yet written); not yet claimed'

try:
    from manifest_extra import CLAIMED as C2, NOT_APPLICABLE as NA2   # optional overrides
    CLAIMED.update(C2)
    PENDING.update(NA2)
except ImportError:
    pass
for k in CLAIMED:
    PENDING.pop(k, None)

checks = []
for pid in sorted(CLAIMED):
    level, text, ref = CLAIMED[pid]
    checks.append({
        'property_id': pid,
        'quick_cmd': f'./check {pid} --tier quick',
        'thorough_cmd': f'./check {pid} --tier thorough',
        'evidence_file': f'/verif/evidence/{pid}.json',
        'replay_cmd_template': './check replay {path}',
        'engine': 'pyvc',
        'level_claimed': {'category': level, 'text': text, 'design_ref': f'DESIGN.md section {ref}'},
        'level_note': NOTE,
        'technique': TECH,
    })

manifest = {
    'version': 1,
    'setup_cmd': './setup.sh',
    'hooks': {
        'guard': 'KERNPY_VERIF',
        'enable': 'none needed: contracts are sidecar files, the source is read with ast, replays import the unmodified package',
        'baseline_off_cmd': 'cd /repo && /venv/bin/python -m pytest -ra -q -p no:cacheprovider --timeout=900 --continue-on-collection-errors',
        'source_commits': [],
        'add_only': True,
    },
    'engines': [{'name': 'pyvc', 'path': '/verif/pyvc', 'serves_properties': sorted(CLAIMED),
                 'kind_free_text': 'VC generator for the Python subset of kernpy (ast -> symbolic paths -> SMT-LIB2), z3-new 5.1.0 first, cvc5 on unknown; executable sidecar contracts in /verif/contracts'}],
    'checks': checks,
    'not_applicable': [{'property_id': k, 'reason': v} for k, v in sorted(PENDING.items())],
    'notes': 'fix: commits in /repo are listed in /verif/known_findings.jsonl (fixed entries suppress nothing). Exit codes of ./check: 0 held, 1 violation, 2 undecided (solver unknown; never reported as violation), 3 checker error.',
}
with open(os.path.join(VERIF, 'MANIFEST.json'), 'w') as f:
    json.dump(manifest, f, indent=1)
print('MANIFEST.json written:', len(checks), 'checks,', len(PENDING), 'not claimed')
