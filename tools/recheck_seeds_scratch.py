#!/usr/bin/env python3
"""Re-runs the checks of seeded changes on scratch copies of /repo's working tree (KERNPY_REPO; /repo and evidence/ stay untouched) and
records the outcome in seeded/<id>/meta.json under `checks_run_final`.  usage: recheck_seeds_scratch.py [-j N] <id> ..."""
import json, os, subprocess, sys, glob, tempfile, shutil
from concurrent.futures import ThreadPoolExecutor
VERIF = os.path.dirname(os.path.dirname(os.path.abspath(__file__)))
args = sys.argv[1:]
jobs = 3
if args and args[0] == '-j':
    jobs, args = int(args[1]), args[2:]


def one(sid):
    d = os.path.join(VERIF, 'seeded', sid)
    meta = json.load(open(os.path.join(d, 'meta.json')))
    props = [meta['property']]
    t = tempfile.mkdtemp(prefix='kpseed.')
    try:
        shutil.copytree('/repo/kernpy', os.path.join(t, 'kernpy'))
        shutil.copy('/repo/README.md', t)
        r = subprocess.run(['patch', '-p1', '-s', '-i', os.path.join(d, 'patch.diff')], cwd=t, capture_output=True, text=True)
        if r.returncode != 0:
            return sid, 'PATCH DOES NOT APPLY'
        final = []
        for p in props:
            r = subprocess.run(['./check', p, '-q'], cwd=VERIF, capture_output=True, text=True, env=dict(os.environ, KERNPY_REPO=t))
            viol = [l for l in r.stdout.splitlines() if l.startswith('VIOLATION')]
            open(os.path.join(d, f'check_{p}.txt'), 'w').write(r.stdout + r.stderr)
            final.append({'property': p, 'exit': r.returncode, 'violations': len(viol),
                          'obligations': [v.split('replay=')[1].split()[0].split('/')[-1].replace('.json', '') for v in viol][:6]})
        meta['checks_run_final'] = final
        json.dump(meta, open(os.path.join(d, 'meta.json'), 'w'), indent=1)
        return sid, ' '.join(f"{x['property']}:{'DETECTED' if x['exit'] == 1 else 'missed(exit %d)' % x['exit']}" for x in final)
    finally:
        shutil.rmtree(t, ignore_errors=True)


ids = args or sorted(os.path.basename(d) for d in glob.glob(os.path.join(VERIF, 'seeded', '*')))
with ThreadPoolExecutor(jobs) as ex:
    for sid, res in ex.map(one, ids):
        print(sid, res, flush=True)
