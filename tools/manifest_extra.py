"""Claims per property (imported by gen_manifest.py)."""
MIXED = ('deductive part: the functions listed in the evidence file under functions_under_contract are verified for all inputs (obligations discharged by z3 / cvc5); '
         'bounded part (labelled bounded, never counted as proved): the document-level clauses are evaluated by executable contracts on scores generated from the reference spine-path model. ')
STEP = ('Loop-step contracts: one iteration of a named loop of the real function from an arbitrary state (the whole-loop conclusion rests on the stated meta-argument, listed under assumptions). ')
CLAIMED = {
    'C01': ('other', MIXED + 'Proved: NoteRestToken / ChordToken / CompoundToken export == canonical rendering for any number of sub-tokens (pipe algebra), Kern/Ekern tokenizers, empty_row, '
                             'get_kern_from_ekern, the listener functions that build the tokens (_add_decoration, exitNoteDecoration, exitRestDecoration, exitDuration, exitNote, exitRest, exitChord, exitBarline: contexts modelled by A-antlr-shapes). '
                             'Bounded: idempotence, extended round trip and canonicity of the whole import-export pipeline (ANTLR recognizer in the loop).', '4.1'),
    'C02': ('other', MIXED + STEP + 'Proved: the cell step and the row step of Importer.run (one node per cell under the cell above, stage / header / operator propagation, token or ErrorToken, counters, parents shift), '
                     'add_node, _compute_header_token, _compute_spine_operator_token, get_last_spine_operator, SignatureNodes.clone/update, import_string / import_file (reader options). '
                     'Bounded: Importer.run as a whole against the reference spine-path model on generated scores.', '4.2'),
    'C03': ('other', MIXED + STEP + 'Proved: token export functions and tokenizers (cell text), the listener exit functions (barlines lose only the number, notes / rests keep duration marks, pitch, accidental, signifiers, verbatim non-note cells), '
                     'append_row, export_token, the row loop step of export_string (row = projection of the stage, placeholder-only rows dropped), empty_row. Bounded: cell-for-cell comparison of the default export with the generator\'s own description of every cell.', '4.3'),
    'C04': ('other', MIXED + 'Proved: the export of every token class, all six tokenizers (Bekern\'s note-by-note string surgery: notes, rests, compound tokens, chords of up to three notes; larger chords bounded), TokenizerFactory, Encoding.prefix, '
                             'HeaderTokenGenerator, export_token, the two-call history lemma of Exporter.export_token. Bounded: the six encodings of whole documents; one Exporter object serving several requests.', '4.4'),
    'C05': ('other', MIXED + STEP + 'Proved: valid() == Clo(I) \\ Clo(E) for symbolic sets, parse_options_to_ExportOptions, append_row (spine gate, category gate, placeholder), export_token (+ history lemma), the filter-is-deletion lemma for notes, '
                             'the row loop step of export_string. Bounded: whole-document exports under include / exclude selections against a cell-level oracle.', '4.5'),
    'C06': ('other', MIXED + STEP + 'Proved: append_row\'s spine gate, compute_header_type, header propagation in _compute_header_token / _compute_spine_operator_token, the row loop step of export_string (selected cells in node order). '
                             'Bounded: column projection on whole documents.', '4.6'),
    'C07': ('other', MIXED + STEP + 'Proved: export_options_validator (ValueError iff out of range, nothing clamped), the stage range of export_string at its row loop (cut-point contract), measures_count, get_first_measure, '
                             'the measure-start rule of Importer.run (cell step: flag; row step: index append, last measure number). Bounded: measure ranges, partition, iteration on **kern scores.', '4.7'),
    'C08': ('other', MIXED + 'Proved: Exporter.is_signature_cancelled (recursive equation: stages a..b only, every sub-spine, stops at notes and chords), cancellation clause of _compute_spine_operator_token. '
                     'Bounded: excerpts of the claimed core class and of the explored class "signature changes outside the excerpt" (well-formed, re-import, same governing signatures); the classes the property names as findings are in known_findings.jsonl.', '4.8'),
    'C10': ('proof', 'Staff-position arithmetic for every octave: the seven clef tables, create_clef (any number of octave marks), compute_position, position rendering, gkern_to_g_clef_pitch, pitch_to_gkern_string, '
                     'the converter of the agnostic tokenizers on the real nested function (lemma callback_meaning), the agnostic branch of NoteRestToken.export, AEKern/AKern tokenizers, export_token with the clef in force.', '4.10'),
    'C12': ('other', MIXED + STEP + 'Proved: KernSpineImporter.import_token for an arbitrary error history (A-antlr), ErrorListener, ErrorToken.export, the cell step of Importer.run (ErrorToken with verbatim cell and line number, '
                     'appended to the error list exactly once iff the spine importer raised), the row step (line counter counts empty lines). Bounded: damaged scores; residual class (barlines with trailing text) is a known finding.', '4.12'),
    'C13': ('other', MIXED + 'Proved: the factorised per-cell pipeline (append_row / export_token contracts are written as spine gate, category gate, cell text), parse_options, dumps keyword mapping, explicit-default lemma. Bounded: whole-document composition.', '4.13'),
    'C14': ('other', MIXED + 'Proved: frame obligations (nothing visible that existed before the call is written; private state of a worker object is exempt and covered by the history lemmas) on every read-only function under contract. '
                             'Bounded: sequences of <= 12 read-only operations with deep snapshots; one Exporter object serving several requests.', '4.14'),
    'C15': ('other', MIXED + STEP + 'Proved: the step of the breadth-first loop of Document.to_transposed for the core class (pitch sub-tokens get T(spelling), every other sub-token copied in order, signifiers kept, children enqueued in order), '
                     'with T = transposer.transpose as an uninterpreted function (its meaning: C09). Bounded: core class on generated scores; the three classes named by the property are known findings.', '4.15'),
    'C17': ('other', MIXED + 'Proved: TokensTraversal.__init__/visit, MetacommentsTraversal.visit, tokens_to_encodings. Bounded: token listings against the recursive preorder of the tree, filtered / unique / frequency / comment queries, '
                     'is_monophonic, on generated scores with global comments (the stack loop of dfs_iterative is not under an invariant).', '4.17'),
    'C18': ('proof', 'The seven non-kern import_token bodies and createImporter against one dispatch specification, with the outcome of the fresh inner kern importer as uninterpreted functions of the cell (assumed contract A-kern-outcome); '
                     'two-call history lemmas (a reused importer object answers the second cell as a fresh one).', '4.18'),
    'C19': ('other', MIXED + STEP + 'Proved: Generic.concat bookkeeping for 1..5 fragments (prefix texts, one pair per fragment, first pair at 0, consecutive, "to" = measure count of the prefix, last import returned), measures_count, '
                     'the stage range of export_string, the measure index append of Importer.run. Bounded: kern scores cut at barline positions (any number of fragments): same document, pairs export their fragment.', '4.19'),
    'C20': ('other', MIXED + 'Proved: dump / dumps keyword mapping and hand-over, Generic.store / export / create / read, _write event trace, ekern_to_krn, kern_to_ekern options, import_file. '
                     'Bounded: load vs loads (LF / CRLF, final newline), dump vs dumps (missing directories), the command-line converters in single-file / directory / recursive mode (files of equal name in different directories) against the API, round trip.', '4.20'),
}
NOT_APPLICABLE = {}
