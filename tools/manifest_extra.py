"""Claims per property (imported by gen_manifest.py)."""
MIXED = ('deductive part: the functions listed in the evidence file under functions_under_contract are verified for all inputs (obligations discharged by z3 / cvc5); '
         'bounded part (labelled bounded, never counted as proved): the document-level clauses are evaluated by executable contracts on scores generated from the reference spine-path model. ')
CLAIMED = {
    'C01': ('other', MIXED + 'Proved: NoteRestToken / ChordToken / CompoundToken export == canonical rendering for any number of sub-tokens (pipe algebra), Kern/Ekern tokenizers, empty_row. '
                             'Bounded: idempotence, extended round trip and canonicity of the whole import-export pipeline (ANTLR recognizer in the loop).', '4.1'),
    'C02': ('other', 'Bounded stand-in only so far: Importer.run against the reference spine-path model (stages, nodes, parents, headers, spine ids, literal cell text, surplus cells rejected) on generated scores; '
                     'the reader configuration and row loop are not yet under a discharged contract.', '4.2'),
    'C03': ('other', MIXED + 'Proved: token export functions and tokenizers (cell text), empty_row. Bounded: cell-for-cell comparison of the default export with the generator\'s own description of every cell.', '4.3'),
    'C04': ('other', MIXED + 'Proved: the export of every token class, five of the six tokenizers (Bekern\'s note-by-note string surgery is outside the subset: bounded stand-in), TokenizerFactory, Encoding.prefix, '
                             'HeaderTokenGenerator. Bounded: the six encodings of whole documents.', '4.4'),
    'C05': ('other', MIXED + 'Proved: valid() == Clo(I) \\ Clo(E) for symbolic sets, parse_options_to_ExportOptions, append_row (spine gate, category gate, placeholder), export_token, the filter-is-deletion lemma for notes. '
                             'Bounded: whole-document exports under include / exclude selections against a cell-level oracle.', '4.5'),
    'C06': ('other', MIXED + 'Proved: append_row\'s spine gate, compute_header_type. Bounded: column projection on whole documents (the header propagation through splits and joins lives in Importer.run).', '4.6'),
    'C07': ('other', MIXED + 'Proved: export_options_validator (ValueError iff out of range, nothing clamped). Bounded: measure ranges, partition, iteration on **kern scores.', '4.7'),
    'C08': ('other', 'Bounded stand-in for the claimed core class (excerpt well-formed, re-imports, same governing signatures); the classes the property names as findings are listed in known_findings.jsonl.', '4.8'),
    'C10': ('proof', 'Staff-position arithmetic for every octave: the seven clef tables, create_clef (any number of octave marks), compute_position, position rendering, gkern_to_g_clef_pitch, pitch_to_gkern_string, '
                     'the converter of the agnostic tokenizers on the real nested function (lemma callback_meaning), the agnostic branch of NoteRestToken.export, AEKern/AKern tokenizers, export_token with the clef in force.', '4.10'),
    'C12': ('other', 'Bounded stand-in: damaged scores (one error per malformed cell with its line, other tokens untouched, verbatim export, history independence); residual class (barlines with trailing text) is a known finding.', '4.12'),
    'C13': ('other', MIXED + 'Proved: the factorised per-cell pipeline (append_row / export_token contracts are written as spine gate, category gate, cell text), parse_options, explicit-default lemma. Bounded: whole-document composition.', '4.13'),
    'C14': ('other', MIXED + 'Proved: frame obligations (modifies nothing that existed before the call) on every function under contract of the export path. Bounded: sequences of <= 12 read-only operations with deep snapshots.', '4.14'),
    'C15': ('other', 'Bounded stand-in for the claimed core class (single notes without explicit accidentals) composed with the proved pitch transposition (C09); the three classes named by the property are known findings.', '4.15'),
    'C17': ('other', 'Bounded stand-in: token listings against the recursive preorder of the tree, filtered / unique / frequency / comment queries, is_monophonic, on generated scores with global comments.', '4.17'),
    'C18': ('proof', 'The seven non-kern import_token bodies and createImporter against one dispatch specification, with the outcome of the fresh inner kern importer as an uninterpreted function of the cell (assumed contract A-kern-outcome).', '4.18'),
    'C19': ('other', 'Bounded stand-in: kern scores cut at barline positions; same document as the joined text, consecutive index pairs, pairs export their fragment.', '4.19'),
    'C20': ('other', 'Bounded stand-in: load vs loads (LF / CRLF, final newline), dump vs dumps (missing directories), the command-line converters in single-file / directory / recursive mode against the API, ekern-kern-ekern round trip.', '4.20'),
}
NOT_APPLICABLE = {}
