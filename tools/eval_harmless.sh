#!/bin/bash
# usage: tools/eval_harmless.sh <worktree with behaviour-preserving edits> <label> <property> [more...]
# The edits are applied to a scratch copy; any VIOLATION line is a false alarm of the checks; CHECKER-ERROR / UNDECIDED mean a
# contract no longer fits the code (to be reported, not an alarm).
WT=$1; ID=$2; shift 2
OUT=/verif/out/harmless/$ID
mkdir -p $OUT
( cd $WT && git diff -- kernpy > $OUT/patch.diff )
cp $WT/seed_out/notes.json $OUT/ 2>/dev/null
D=$(mktemp -d /tmp/kpharm.XXXXXX)
cp -r /repo/kernpy /repo/README.md $D/
( cd $D && patch -p1 -s < $OUT/patch.diff ) || { echo "PATCH DOES NOT APPLY"; rm -rf $D; exit 9; }
cd /verif
for P in "$@"; do
  KERNPY_REPO=$D ./check $P -q > $OUT/check_$P.txt 2>&1; RC=$?
  echo "check $P: exit $RC"; grep '^VIOLATION\|^CHECKER\|^UNDECIDED\|^UNPROVED' $OUT/check_$P.txt | sed 's/^/    /' | cut -c1-260
done
rm -rf $D
