#!/usr/bin/env python3
"""Runs the repository's pinned test command and compares with /root/.vp/BASELINE.json (stable_pass must still pass)."""
import json, subprocess, sys, tempfile, os, xml.etree.ElementTree as ET
base = json.load(open('/root/.vp/BASELINE.json'))
with tempfile.TemporaryDirectory() as d:
    xml = os.path.join(d, 'r.xml')
    cmd = base['cmd'].replace('<file>', xml)
    env = dict(os.environ)
    env.pop('KERNPY_VERIF', None)
    subprocess.run(cmd, shell=True, env=env, stdout=subprocess.DEVNULL, stderr=subprocess.DEVNULL)
    passed = set()
    for tc in ET.parse(xml).getroot().iter('testcase'):
        if not any(ch.tag in ('failure', 'error', 'skipped') for ch in tc):
            passed.add(f"{tc.get('classname')}::{tc.get('name')}")
missing = [t for t in base['stable_pass'] if t not in passed]
print(f'passed={len(passed)} stable_pass={len(base["stable_pass"])} missing={len(missing)}')
for t in missing[:20]:
    print('  MISSING', t)
sys.exit(1 if missing else 0)
