#!/bin/sh
# Builds /verif/.venv (python 3.12) offline: z3-solver + jsonschema from the wheelhouse, and a .pth that makes
# /venv's site-packages (antlr4 runtime, kernpy editable install -> /repo) importable, so one interpreter proves and replays.
set -e
cd "$(dirname "$0")"
if [ ! -x .venv/bin/python ] || ! .venv/bin/python -c "import z3, jsonschema, antlr4" 2>/dev/null; then
  rm -rf .venv
  /venv/bin/python -m venv .venv
  PIP_NO_INDEX=1 .venv/bin/python -m pip install -q --no-index --find-links /opt/veriftools/wheels z3-solver jsonschema
  SP=$(.venv/bin/python -c "import sysconfig; print(sysconfig.get_paths()['purelib'])")
  echo "import site; site.addsitedir('/venv/lib/python3.12/site-packages')" > "$SP/zz_venv.pth"
fi
.venv/bin/python -c "import z3, jsonschema, antlr4; print('setup ok: z3', z3.get_version_string())"
