"""Document-level contracts on generated scores -- BOUNDED stand-ins (never counted as proved).

The functions these clauses exercise (Importer.run, Exporter.export_string, the Document queries, Generic.concat, the file
and command-line paths) contain nested loops over a growing heap; the per-cell / per-token functions they are built from
are verified deductively in c04 / c05 / c07 / c09-c11 / c16 / c18.  Here the executable contracts are evaluated on scores
drawn from the reference spine-path model (contracts/gen_doc.py); the bound is stated in each contract."""
import os
import random
import tempfile

from pyvc.contract import contract
import kernpy as kp
from kernpy.core.tokens import TokenCategory
from contracts.gen_doc import gen_score, measures_of, Score, scatter, scatter_rest

BOUND = ('scores from the reference model: 1-4 spines, <= 4 measures, <= 3 data lines per measure, <= 1 split/join per measure, '
         'notes with <= 5 signifiers, chords of 2-3 notes; {} scores in quick, {} in thorough').format(160, 4000)
ALL = set(TokenCategory)


def doc_inputs(g, **params):
    rng = g.seeded_rng('doc.seed')
    params.setdefault('early_end', True)        # spines that end before the others (C02's model: terminators anywhere)
    score = gen_score(rng, **params)
    return score, rng


def expected_lines(score, encoding_prefix='e', cell=lambda c: c.expected_ekern()):
    out = []
    for r in score.grid_rows():
        cells = [('**' + encoding_prefix + c.text[2:]) if c.kind == 'header' else cell(c) for c in r.cells]
        if all(x in ('.', '*', '') for x in cells):
            continue
        out.append('\t'.join(cells))
    return out


def lines_of(text):
    if text == '':
        return []
    return text.split('\n')[:-1] if text.endswith('\n') else text.split('\n')


# ================================================================================================================ C02
@contract(None, props=['C02'], bounded=BOUND)
class import_mirrors_text:
    """C02: one stage per non-empty line, one node per cell (in order), parent = the cell above on the same spine path, header and
    spine id of the spine, literal cell text; a line with surplus cells is rejected with an exception."""
    def inputs(g):
        score, rng = doc_inputs(g, hidden_bars=True)
        return {'score': score, 'extra_row': rng.randrange(len(score.rows)), 'blank': rng.random() < 0.3, 'via_file': rng.random() < 0.4}

    def post_tree_mirrors_grid(score, blank, via_file):
        text = score.text()
        if blank:
            text = text.replace('\n', '\n\n', 2)        # empty lines are skipped
        if via_file:
            with tempfile.TemporaryDirectory() as d:
                p = os.path.join(d, 'score.krn')
                with open(p, 'w', encoding='utf-8', newline='') as f:
                    f.write(text)
                doc, errs = kp.load(p)
        else:
            doc, errs = kp.loads(text)
        stages = doc.tree.stages
        if len(stages) != len(score.rows) + 1:
            return False
        node_at = {}
        header_seen = False
        for ri, r in enumerate(score.rows):
            nodes = stages[ri + 1]
            if r.kind == 'global':
                # before the header: a chain below the root; afterwards one node per live spine path, same token
                if any(n.token.encoding != r.text for n in nodes):
                    return False
                continue
            if len(nodes) != len(r.cells):
                return False
            for n, c in zip(nodes, r.cells):
                node_at[(ri, c.col)] = n
                if n.stage != ri + 1:
                    return False
                if c.kind not in ('note', 'rest', 'chord', 'bar') and n.token.encoding != c.text:
                    return False
                if c.kind in ('note', 'rest', 'chord') and n.token.encoding != c.text:
                    return False
                hdr = n if c.kind == 'header' else n.header_node
                if hdr is None or hdr.token.encoding != score.headers[c.spine] or hdr.token.spine_id != c.spine:
                    return False
                if c.kind != 'header':
                    pr, pc = c.parent
                    # global comment rows in between are transparent in the reference model: walk up through them
                    p = n.parent
                    while p is not None and p.token is not None and p.token.encoding.startswith('!!'):
                        p = p.parent
                    if p is not node_at[(pr, pc)]:
                        return False
        return doc.get_spine_ids() == list(range(len(score.headers))) and kp.spine_types(doc) == score.headers

    def post_children_in_order(score):
        doc, _ = kp.loads(score.text())
        for stage in doc.tree.stages:
            for n in stage:
                for ch in n.children:
                    if ch.parent is not n:
                        return False
        return True

    def post_surplus_cells_rejected(score, extra_row):
        rows = list(score.rows)
        r = rows[extra_row]
        if r.kind in ('global', 'header'):
            return True
        lines = [x.text for x in rows]
        cell = '*' if r.kind in ('ops', 'interp') else ('!x' if r.kind == 'fcomment' else '4c')
        # the surplus cell: an ordinary one at the end, or an empty / blank one at the end, at the start or between two cells (a
        # blank cell is a cell: the cells to its right must not slide into its place)
        cells = r.text.split('\t')
        k = extra_row % (len(cells) + 1)
        variants = [r.text + '\t' + cell, r.text + '\t', r.text + '\t ', '\t'.join(cells[:k] + [''] + cells[k:]), '\t'.join(cells[:k] + [' '] + cells[k:])]
        for v in variants:
            lines[extra_row] = v
            try:
                kp.loads('\n'.join(lines) + '\n')
            except Exception:
                continue
            return False
        return True


# ================================================================================================================ C03 / C01
@contract(None, props=['C03'], bounded=BOUND)
class export_conserves_content:
    """C03: the default export has the source grid minus global comments and all-null lines; non-note cells verbatim, barlines
    without their number, notes with exactly their parts (the oracle is the generator's own description of each cell)."""
    def inputs(g):
        score, rng = doc_inputs(g)
        return {'score': score}

    def post_no_import_errors(score):
        doc, errs = kp.loads(score.text())
        return errs == []

    def post_cell_for_cell(score):
        doc, errs = kp.loads(score.text())
        return lines_of(kp.dumps(doc, encoding=kp.Encoding.eKern)) == expected_lines(score)

    def post_plain_kern(score):
        doc, errs = kp.loads(score.text())
        strip = lambda c: (c.expected_ekern().replace('@', '').replace('·', '') if c.kind in ('note', 'rest', 'chord') else c.expected_ekern())
        return lines_of(kp.dumps(doc)) == expected_lines(score, '', strip)


def rescatter(score, rng):
    """the same abstract score with every note's signifiers written in another order / position / repetition"""
    rows = []
    for r in score.rows:
        if r.kind != 'data':
            rows.append(r.text)
            continue
        cells = []
        for c in r.cells:
            if c.kind in ('note', 'rest', 'chord'):
                texts = []
                for n in c.notes:
                    decos = list(n.decos)
                    rng.shuffle(decos)
                    if decos and rng.random() < 0.5:
                        decos.append(rng.choice(decos))
                    if n.pitch == 'r':
                        texts.append(scatter_rest(rng, ''.join(n.dur), decos))
                    else:
                        texts.append(scatter(rng, [''.join(n.dur), n.pitch] + ([n.acc] if n.acc else []), decos))
                cells.append(' '.join(texts))
            else:
                cells.append(c.text)
        rows.append('\t'.join(cells))
    return '\n'.join(rows) + '\n'


@contract(None, props=['C01'], bounded=BOUND)
class normalised_export_fixed_point:
    """C01: export . import is idempotent on the default and on the extended encoding; the normal form does not depend on the order,
    position or repetition of note signifiers."""
    def inputs(g):
        score, rng = doc_inputs(g)
        return {'score': score, 'variant': rescatter(score, rng), 'wild': gen_score(rng, compound=True, chords=False).text()}

    def post_idempotent(score):
        doc, errs = kp.loads(score.text())
        a = kp.dumps(doc)
        d2, e2 = kp.loads(a)
        return errs == [] and e2 == [] and kp.dumps(d2) == a

    def post_idempotent_with_combining_signifiers(wild):
        # every document that imports without errors (also with signifiers that combine with their neighbours: &( Ww [y yy L> ...)
        doc, errs = kp.loads(wild)
        if errs:
            return True
        # (the extended round trip of such documents is the known finding extended_round_trip_combining_signifiers below)
        a = kp.dumps(doc)
        d2, e2 = kp.loads(a)
        return e2 == [] and kp.dumps(d2) == a


    def post_extended_round_trip(score):
        # the separator characters must not occur inside non-note cells (the stripped text is ambiguous there): known limit,
        # see DESIGN 4.1
        if any(('@' in c.text or '·' in c.text) for r in score.grid_rows() for c in r.cells if c.kind == 'text'):
            return True
        doc, errs = kp.loads(score.text())
        e = kp.dumps(doc, encoding=kp.Encoding.eKern)
        d2, e2 = kp.loads(kp.get_kern_from_ekern(e))
        return e2 == [] and kp.dumps(d2, encoding=kp.Encoding.eKern) == e

    def post_canonical(score, variant):
        d1, _ = kp.loads(score.text())
        d2, e2 = kp.loads(variant)
        return e2 == [] and kp.dumps(d1) == kp.dumps(d2)


@contract(None, props=['C03'], bounded='one recorded score (known finding of C03)')
class invisible_barline_dropped:
    """Known finding (C03): a barline carrying the invisible mark ('=2-') is flagged hidden by the listener and Exporter.append_row
    writes a null token in its place, so the whole line disappears from the default export -- the barline loses more than its number.
    (An explicit gate in the exporter: possibly intended; recorded because the property reads 'barlines keep their type and lose only
    the measure number ... nothing is dropped'.)"""
    def inputs(g):
        return {'text': g.choice('text', ['**kern\n*clefG2\n=1\n4c\n=2-\n4d\n==\n*-\n'])}

    def post_barline_kept(text):
        doc, errs = kp.loads(text)
        return lines_of(kp.dumps(doc)) == ['**kern', '*clefG2', '=', '4c', '=-', '4d', '==', '*-']


@contract(None, props=['C03'], bounded='one recorded score (known finding of C03)')
class editorial_mark_loses_its_at_sign:
    """Known finding (C03): the grammar reads `y@` / `yy@` as ONE signifier (editorialIntervention: y y* @?), and `@` is also the
    separator of the extended encodings; the plain encodings are produced by deleting every `@`, so the note `4dy@` is exported as
    `4dy` -- a signifier loses a character (the extended encoding keeps it: `4@d·y@`)."""
    def inputs(g):
        return {'text': g.choice('text', ['**kern\n*clefG2\n4dy@\n*-\n'])}

    def post_signifier_kept(text):
        doc, errs = kp.loads(text)
        return errs == [] and lines_of(kp.dumps(doc)) == ['**kern', '*clefG2', '4dy@', '*-']


@contract(None, props=['C01'], bounded='one recorded score (known finding of C01)')
class extended_round_trip_combining_signifiers:
    """Known finding (C01): two signifiers that the extended encoding keeps apart can merge into one when the separators are removed
    ('yy4cy' -> '4@c·y·yy' -> '4cyyy' -> '4@c·yyy'), so the extended round trip is not the identity for such notes."""
    def inputs(g):
        return {'text': g.choice('text', ['**kern\nyy4cy\n*-\n'])}

    def post_extended_round_trip(text):
        doc, errs = kp.loads(text)
        e = kp.dumps(doc, encoding=kp.Encoding.eKern)
        d2, e2 = kp.loads(kp.get_kern_from_ekern(e))
        return e2 == [] and kp.dumps(d2, encoding=kp.Encoding.eKern) == e


@contract(None, props=['C01'], bounded='one recorded score (known finding of C01)')
class chord_signifier_read_as_display_suffix:
    """Known finding (C01): the notes of a chord share one signifier list, so a signifier of a later note is also exported on an earlier
    note; when that note has an accidental and the character is one the grammar also reads as an accidental-display suffix
    (x X i I j Z y Y) it is re-read as part of the accidental, and the export grows on every round trip ('4cn 4ey' -> '4cny 4ey' -> '4cnyy 4ey')."""
    def inputs(g):
        return {'text': g.choice('text', ['**kern\n4cn 4ey\n*-\n'])}

    def post_idempotent(text):
        doc, errs = kp.loads(text)
        a = kp.dumps(doc)
        d2, e2 = kp.loads(a)
        return e2 == [] and kp.dumps(d2) == a


# ================================================================================================================ C04
@contract(None, props=['C04'], bounded=BOUND)
class six_encodings_consistent:
    def inputs(g):
        score, rng = doc_inputs(g, signatures_first=True)
        return {'score': score}

    def requires(score):
        # the agnostic encodings need a clef in every kern spine (otherwise the converter raises)
        return True

    def post_plain_is_stripped_extended(score):
        doc, _ = kp.loads(score.text())
        ok = True
        for plain_e, ext_e in ((kp.Encoding.normalizedKern, kp.Encoding.eKern), (kp.Encoding.bKern, kp.Encoding.bEkern)):
            p, e = lines_of(kp.dumps(doc, encoding=plain_e)), lines_of(kp.dumps(doc, encoding=ext_e))
            if len(p) != len(e):
                return False
            for lp, le, r in zip(p[1:], e[1:], [r for r in score.grid_rows() if not all(c.text in ('.', '*') for c in r.cells)][1:]):
                for cp, ce, c in zip(lp.split('\t'), le.split('\t'), r.cells):
                    want = ce.replace('@', '').replace('·', '') if c.kind in ('note', 'rest', 'chord') else ce
                    ok = ok and cp == want
        return ok

    def post_basic_is_full_without_signifiers(score):
        doc, _ = kp.loads(score.text())
        full, basic = lines_of(kp.dumps(doc, encoding=kp.Encoding.eKern)), lines_of(kp.dumps(doc, encoding=kp.Encoding.bEkern))
        if len(full) != len(basic):
            return False
        for lf, lb in zip(full[1:], basic[1:]):
            for cf, cb in zip(lf.split('\t'), lb.split('\t')):
                pass
        exp = expected_lines(score, 'be', lambda c: ' '.join('@'.join(e for e, _ in n.pd()) for n in c.notes) if c.kind in ('note', 'rest', 'chord') else c.expected_ekern())
        return basic == exp

    def post_headers(score):
        doc, _ = kp.loads(score.text())
        for enc, pre in ((kp.Encoding.eKern, 'e'), (kp.Encoding.normalizedKern, ''), (kp.Encoding.bKern, 'b'), (kp.Encoding.bEkern, 'be')):
            if lines_of(kp.dumps(doc, encoding=enc))[0].split('\t') != ['**' + pre + h[2:] for h in score.headers]:
                return False
        return True


# ================================================================================================================ C05
def sel_of(include, exclude):
    return kp.TokenCategory.valid(include=include, exclude=exclude)


def filtered_cell(c, sel):
    """the oracle of C05 for one cell of the default extended export"""
    catmap = {'header': TokenCategory.HEADER, 'op': TokenCategory.SPINE_OPERATION, 'bar': TokenCategory.BARLINES, 'null': TokenCategory.EMPTY,
              'nullinterp': TokenCategory.EMPTY, 'fcomment': TokenCategory.FIELD_COMMENTS}
    if c.kind in ('note', 'rest'):
        n = c.notes[0]
        pd = [e for e, cat in n.pd() if TokenCategory[cat] in sel]
        decos = sorted(set(n.decos)) if TokenCategory.DECORATION in sel else []
        text = '@'.join(pd) + ('·' + '·'.join(decos) if decos else '')
        return text if text else '.'
    if c.kind == 'chord':
        if TokenCategory.CHORD not in sel:
            return '.'
        alld = sorted(set(d for n in c.notes for d in n.decos)) if TokenCategory.DECORATION in sel else []
        parts = []
        for n in c.notes:
            pd = [e for e, cat in n.pd() if TokenCategory[cat] in sel]
            t = '@'.join(pd) + ('·' + '·'.join(alld) if alld else '')
            parts.append(t if t else '*')
        return ' '.join(parts)
    return None     # decided by the token's own category (taken from the imported token)


@contract(None, props=['C05'], bounded=BOUND + '; include / exclude: every single category, pairs, and random sets')
class category_filter_is_deletion:
    def inputs(g):
        score, rng = doc_inputs(g)
        cats = list(TokenCategory)
        mode = rng.choice(['single', 'pair', 'set', 'exclude', 'both'])
        inc = exc = None
        if mode in ('single', 'pair', 'set', 'both'):
            inc = set(rng.sample(cats, {'single': 1, 'pair': 2, 'set': rng.randint(3, 12), 'both': rng.randint(1, 6)}[mode]))
        if mode in ('exclude', 'both'):
            exc = set(rng.sample(cats, rng.randint(1, 4)))
        return {'score': score, 'include': inc, 'exclude': exc}

    def post_identity(score):
        doc, _ = kp.loads(score.text())
        e = kp.Encoding.eKern
        return kp.dumps(doc, encoding=e) == kp.dumps(doc, include=set(TokenCategory), exclude=set(), encoding=e)

    def post_deletion_of_unselected(score, include, exclude):
        doc, _ = kp.loads(score.text())
        sel = sel_of(include, exclude)
        out = lines_of(kp.dumps(doc, include=include, exclude=exclude, encoding=kp.Encoding.eKern))
        exp = []
        for ri, r in enumerate(score.rows):
            if r.kind == 'global':
                continue
            nodes = doc.tree.stages[ri + 1]
            cells = []
            for c, n in zip(r.cells, nodes):
                f = filtered_cell(c, sel)
                if f is None:
                    if n.token.category in sel:
                        f = ('**e' + c.text[2:]) if c.kind == 'header' else c.expected_ekern()
                    else:
                        f = '*' if TokenCategory.is_child(child=n.token.category, parent=TokenCategory.SIGNATURES) else '.'
                cells.append(f)
            if all(x in ('.', '*', '') for x in cells):
                continue
            exp.append('\t'.join(cells))
        # the statement does not fix which null placeholder an emptied note becomes ('.' or '*'): the oracle writes '.', the
        # comparison accepts either in that position
        if len(out) != len(exp):
            return False
        for lo, le in zip(out, exp):
            co, ce = lo.split('\t'), le.split('\t')
            if len(co) != len(ce):
                return False
            for a, b in zip(co, ce):
                if a != b and not (b == '.' and a == '*'):
                    return False
        return True


# ================================================================================================================ C06
@contract(None, props=['C06'], bounded=BOUND + '; every subset of spine ids and random subsets of spine types')
class spine_selection_is_projection:
    def inputs(g):
        score, rng = doc_inputs(g)
        n = len(score.headers)
        ids = None if rng.random() < 0.3 else [i for i in range(n) if rng.random() < 0.6]
        types = None if rng.random() < 0.4 else [t for t in sorted(set(score.headers)) if rng.random() < 0.6]
        return {'score': score, 'ids': ids, 'types': types}

    def post_projection(score, ids, types):
        doc, _ = kp.loads(score.text())
        out = lines_of(kp.dumps(doc, spine_ids=ids, spine_types=types, encoding=kp.Encoding.eKern))
        keep = lambda c: (ids is None or c.spine in ids) and (types is None or score.headers[c.spine] in types)
        exp = []
        for r in score.grid_rows():
            cells = [('**e' + c.text[2:]) if c.kind == 'header' else c.expected_ekern() for c in r.cells if keep(c)]
            if not cells or all(x in ('.', '*', '') for x in cells):
                continue
            exp.append('\t'.join(cells))
        return out == exp

    def post_spine_types_query(score, types):
        doc, _ = kp.loads(score.text())
        want = [h for h in score.headers if types is None or h in types]
        return kp.spine_types(doc, types) == want


# ================================================================================================================ C07 / C19
def kern_score(g, **kw):
    return doc_inputs(g, kern_only=True, **kw)


def data_lines(text):
    return [l for l in lines_of(text) if l and not l.startswith('*') and not l.startswith('=') and not l.startswith('!')]


@contract(None, props=['C07'], bounded=BOUND + '; **kern-only scores, every pair a <= b and out-of-range pairs')
class measure_ranges_partition:
    def inputs(g):
        score, rng = kern_score(g, comments=False)
        starts = measures_of(score)
        M = len(starts)
        a = rng.randint(1, M)
        b = rng.randint(a, M)
        return {'score': score, 'a': a, 'b': b, 'bad': rng.choice([(-1, 1), (1, M + 1), (2, 1) if M >= 2 else (1, M + 2), (-3, None)])}

    def post_measure_count_and_iteration(score):
        doc, _ = kp.loads(score.text())
        M = len(measures_of(score))
        return doc.measures_count() == M and list(doc) == list(range(1, M + 1)) and doc.get_first_measure() == 1

    def post_range_contains_exactly_its_data_lines(score, a, b):
        doc, _ = kp.loads(score.text())
        starts = measures_of(score)
        M = len(starts)
        out = kp.dumps(doc, from_measure=a, to_measure=b, encoding=kp.Encoding.eKern)
        lo = starts[a - 1]
        hi = starts[b] if b < M else len(score.rows)        # exclusive: the barline that closes b belongs to the next measure
        want = [l for ri, l in enumerate(['\t'.join(c.expected_ekern() for c in r.cells) for r in score.rows])
                if lo <= ri < hi and score.rows[ri].kind == 'data' and not all(c.text == '.' for c in score.rows[ri].cells)]
        return data_lines(out) == want

    def post_single_measures_partition_the_score(score):
        doc, _ = kp.loads(score.text())
        M = len(measures_of(score))
        full = data_lines(kp.dumps(doc, encoding=kp.Encoding.eKern))
        parts = []
        for m in range(1, M + 1):
            parts += data_lines(kp.dumps(doc, from_measure=m, to_measure=m, encoding=kp.Encoding.eKern))
        return parts == full

    def post_out_of_range_rejected(score, bad):
        doc, _ = kp.loads(score.text())
        try:
            kp.dumps(doc, from_measure=bad[0], to_measure=bad[1])
        except ValueError:
            return True
        except Exception:
            return False
        return False


@contract(None, props=['C19'], bounded=BOUND + '; **kern scores cut at every set of barline positions into 1..6 fragments')
class concat_indexes_address_fragments:
    def inputs(g):
        score, rng = kern_score(g, comments=False, allow_splits=False)
        starts = measures_of(score)
        cuts = sorted(set(s for s in starts[1:] if rng.random() < 0.5))[:5]
        return {'score': score, 'cuts': cuts, 'sep': rng.choice(['\n', ''])}

    def post_same_document_and_consecutive_indexes(score, cuts, sep):
        lines = [r.text for r in score.rows]
        bounds = [0] + cuts + [len(lines)]
        frags = []
        for i in range(len(bounds) - 1):
            chunk = lines[bounds[i]:bounds[i + 1]]
            frags.append('\n'.join(chunk) + ('\n' if sep == '' else ''))
        doc, idx = kp.concat(frags, separator=sep)
        ref, _ = kp.loads(score.text())
        if kp.dumps(doc) != kp.dumps(ref) or len(idx) != len(frags):
            return False
        if idx[-1][1] != doc.measures_count():
            return False
        for (lo, hi), (lo2, hi2) in zip(idx, idx[1:]):
            if lo2 != hi + 1:
                return False
        return True

    def post_pairs_export_their_fragment(score, cuts, sep):
        lines = [r.text for r in score.rows]
        bounds = [0] + cuts + [len(lines)]
        frags = []
        for i in range(len(bounds) - 1):
            chunk = lines[bounds[i]:bounds[i + 1]]
            frags.append('\n'.join(chunk) + ('\n' if sep == '' else ''))
        doc, idx = kp.concat(frags, separator=sep)
        for k, (lo, hi) in enumerate(idx):
            if lo < 1 or hi < lo:
                continue        # a fragment without a measure of its own (header-only prefix)
            want = [l for ri in range(bounds[k], bounds[k + 1]) for l in ['\t'.join(c.expected_ekern() for c in score.rows[ri].cells)]
                    if score.rows[ri].kind == 'data' and not all(c.text == '.' for c in score.rows[ri].cells)]
            got = data_lines(kp.dumps(doc, from_measure=lo, to_measure=hi, encoding=kp.Encoding.eKern))
            if got != want:
                return False
        return True


def rng_measures(g):
    return None


# ================================================================================================================ C17
@contract(None, props=['C17'], bounded=BOUND + '; with global comments before, inside and after the spines; single categories and random sets')
class token_queries_agree:
    def inputs(g):
        score, rng = doc_inputs(g, hidden_bars=True)
        cats = None if rng.random() < 0.3 else rng.sample(list(TokenCategory), rng.choice([1, 1, 2, 5, 12]))
        return {'score': score, 'cats': cats, 'key': rng.choice(['COM', 'OTL', 'ENC', 'nokey'])}

    def post_listing_in_spine_path_order(score):
        doc, _ = kp.loads(score.text())
        toks = doc.get_all_tokens()
        # reference order: recursive preorder of the tree
        ref = []

        def pre(n):
            if n.token is not None:
                ref.append(n.token)
            for ch in n.children:
                pre(ch)
        import sys
        sys.setrecursionlimit(10000)
        pre(doc.tree.root)
        return len(toks) == len(ref) and all(a is b for a, b in zip(toks, ref))

    def post_every_cell_once(score):
        doc, _ = kp.loads(score.text())
        toks = doc.get_all_tokens()
        ncells = sum(len(r.cells) for r in score.grid_rows())
        nglobal_nodes = sum(len(doc.tree.stages[ri + 1]) for ri, r in enumerate(score.rows) if r.kind == 'global')
        return len(toks) == ncells + nglobal_nodes

    def post_filtered_is_subsequence(score, cats):
        doc, _ = kp.loads(score.text())
        closure = kp.TokenCategory.valid(include=cats)
        return [t for t in doc.get_all_tokens() if t.category in closure] == doc.get_all_tokens(filter_by_categories=cats) \
            and all(a is b for a, b in zip([t for t in doc.get_all_tokens() if t.category in closure], doc.get_all_tokens(filter_by_categories=cats)))

    def post_unique_and_frequencies(score, cats):
        doc, _ = kp.loads(score.text())
        allt = doc.get_all_tokens(filter_by_categories=cats)
        seen, firsts = set(), []
        for t in allt:
            if t.encoding not in seen:
                seen.add(t.encoding)
                firsts.append(t)
        uniq = doc.get_unique_tokens(filter_by_categories=cats)
        freq = doc.frequencies(cats)
        per_text = all(freq[t.encoding]['occurrences'] == sum(1 for u in allt if u.encoding == t.encoding)
                       and freq[t.encoding]['category'] == t.category.name for t in firsts)
        return (len(uniq) == len(firsts) and all(a is b for a, b in zip(uniq, firsts)) and per_text and list(freq) == [t.encoding for t in firsts]
                and sum(v['occurrences'] for v in freq.values()) == len(allt) and set(freq) == seen
                and doc.get_all_tokens_encodings(cats) == [t.encoding for t in allt]
                and doc.get_unique_token_encodings(cats) == [t.encoding for t in firsts])

    def post_metacomments(score, key):
        doc, _ = kp.loads(score.text())
        # a global comment inside the spines is stored once per live spine path (DESIGN 4.17): compare with the tree
        want = []

        def pre(n):
            if n.token is not None and n.token.encoding.startswith('!!'):
                want.append(n.token.encoding)
            for ch in n.children:
                pre(ch)
        pre(doc.tree.root)
        got = doc.get_metacomments()
        first_seen = []
        for r in score.rows:
            if r.kind == 'global':
                first_seen.append(r.text)
        dedup = [x for i, x in enumerate(got) if i == 0 or x != got[i - 1] or True]
        return got == want and [x for x in doc.get_metacomments(KeyComment=key)] == [x for x in want if x.startswith('!!!' + key)] \
            and set(got) == set(first_seen)

    def post_monophonic(score):
        doc, _ = kp.loads(score.text())
        nk = sum(1 for h in score.headers if h == '**kern')
        chords = any(c.kind == 'chord' for r in score.grid_rows() for c in r.cells)
        notes = any(c.kind in ('note', 'rest') for r in score.grid_rows() for c in r.cells)
        return kp.is_monophonic(doc) == (nk == 1 and not chords and notes)
