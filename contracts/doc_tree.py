"""The documented category tree -- transcribed from README.md ("Tree:" block, the printed output of
kp.TokenCategory.tree()).  This is the oracle of C11: the code's hierarchy literal and every query are compared with it.
pyvc re-reads the README block on every run and reports drift between the README and this transcription in the evidence
(the specification stays the transcription)."""

__pyvc_native_data__ = True     # constants of this module are taken from the natively imported module

DOC_TREE_TEXT = """\
.
├── STRUCTURAL
│   ├── HEADER
│   └── SPINE_OPERATION
├── CORE
│   ├── NOTE_REST
│   │   ├── DURATION
│   │   ├── NOTE
│   │   │   ├── PITCH
│   │   │   ├── DECORATION
│   │   │   └── ALTERATION
│   │   └── REST
│   ├── CHORD
│   ├── EMPTY
│   └── ERROR
├── SIGNATURES
│   ├── CLEF
│   ├── TIME_SIGNATURE
│   ├── METER_SYMBOL
│   ├── KEY_SIGNATURE
│   └── KEY_TOKEN
├── ENGRAVED_SYMBOLS
├── OTHER_CONTEXTUAL
├── BARLINES
├── COMMENTS
│   ├── FIELD_COMMENTS
│   └── LINE_COMMENTS
├── DYNAMICS
├── HARMONY
├── FINGERING
├── LYRICS
├── INSTRUMENTS
├── IMAGE_ANNOTATIONS
│   ├── BOUNDING_BOXES
│   └── LINE_BREAK
├── OTHER
├── MHXM
└── ROOT"""


def parse_tree_text(text):
    """Nested dict {name: {child name: {...}}} from the `tree`-style rendering (4 columns per level)."""
    root = {}
    stack = [root]
    for line in text.split('\n')[1:]:
        k = 0
        while k < len(line) and not (line[k].isalpha()):
            k += 1
        depth = k // 4          # '├── ' is 4 columns
        name = line[k:]
        node = {}
        stack[depth - 1][name] = node
        stack[depth:] = [node]
    return root


DOC_TREE = parse_tree_text(DOC_TREE_TEXT)


def readme_block(repo='/repo'):
    import os
    lines = open(os.path.join(repo, 'README.md'), encoding='utf-8').read().split('\n')
    i = lines.index('Tree:')
    j = i + 2
    out = []
    while lines[j] != '```':
        out.append(lines[j])
        j += 1
    return '\n'.join(out)
