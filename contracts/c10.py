"""C10 -- the agnostic encoding depends only on staff position and accidental (DESIGN 4.10), pitch level."""
from pyvc.contract import contract
from pyvc.ghost import ite, conj, disj, implies, iff
from contracts.spec_pitch import LETTERS_UP, LETTERS_LO, name_LA, spell, letter_of, alt_of, canonical_name
from contracts.spec_staff import BOTTOM, CLEF_OF, staff_steps, spell_by_distance, agnostic_spelling
from contracts.shapes import mk_pitch, mk_clef, mk_position, mk_refsys, CLEF_CLASSES
from kernpy.core.gkern import (PositionInStaff, PitchPositionReferenceSystem, ClefFactory, Staff, GKernExporter, GClef, F3Clef,
                               F4Clef, C1Clef, C2Clef, C3Clef, C4Clef)
from kernpy.core.pitch_models import AgnosticPitch

G = 'kernpy.core.gkern.'


def any_pitch(g, amax=2):
    L = g.choice('L', range(7))
    a = g.int('a', -amax, amax)
    o = g.int('o')
    return L, a, o


# ------------------------------------------------------------------------------------------------ clef table
def bottom_contract(cls_name):
    def deco(c):
        return contract(G + cls_name + '.bottom_line', props=['C10'], name='bottom_line_' + cls_name)(c)
    return deco


@bottom_contract('GClef')
class bl_g:
    def inputs(g):
        return {'self': mk_clef(g, GClef)}

    def post_table(result):
        return conj(result.name == name_LA(BOTTOM['GClef'][0], 0), result.octave == BOTTOM['GClef'][1])


@bottom_contract('F3Clef')
class bl_f3:
    def inputs(g):
        return {'self': mk_clef(g, F3Clef)}

    def post_table(result):
        return conj(result.name == name_LA(BOTTOM['F3Clef'][0], 0), result.octave == BOTTOM['F3Clef'][1])


@bottom_contract('F4Clef')
class bl_f4:
    def inputs(g):
        return {'self': mk_clef(g, F4Clef)}

    def post_table(result):
        return conj(result.name == name_LA(BOTTOM['F4Clef'][0], 0), result.octave == BOTTOM['F4Clef'][1])


@bottom_contract('C1Clef')
class bl_c1:
    def inputs(g):
        return {'self': mk_clef(g, C1Clef)}

    def post_table(result):
        return conj(result.name == name_LA(BOTTOM['C1Clef'][0], 0), result.octave == BOTTOM['C1Clef'][1])


@bottom_contract('C2Clef')
class bl_c2:
    def inputs(g):
        return {'self': mk_clef(g, C2Clef)}

    def post_table(result):
        return conj(result.name == name_LA(BOTTOM['C2Clef'][0], 0), result.octave == BOTTOM['C2Clef'][1])


@bottom_contract('C3Clef')
class bl_c3:
    def inputs(g):
        return {'self': mk_clef(g, C3Clef)}

    def post_table(result):
        return conj(result.name == name_LA(BOTTOM['C3Clef'][0], 0), result.octave == BOTTOM['C3Clef'][1])


@bottom_contract('C4Clef')
class bl_c4:
    def inputs(g):
        return {'self': mk_clef(g, C4Clef)}

    def post_table(result):
        return conj(result.name == name_LA(BOTTOM['C4Clef'][0], 0), result.octave == BOTTOM['C4Clef'][1])


@contract(G + 'ClefFactory.create_clef', props=['C10'])
class create_clef:
    """The clef depends only on the sign letter and the line digit: any number of octave marks (^ / v) is ignored;
    unsupported lines raise ValueError."""
    def inputs(g):
        sign = g.choice('sign', ['G', 'F', 'C'])
        line = g.choice('line', [1, 2, 3, 4, 5])
        up = g.int('marks_up', 0)
        down = g.int('marks_down', 0)
        return {'cls': ClefFactory, 'encoding': '*clef' + sign + '^' * up + 'v' * down + str(line), '_sign': sign, '_line': line}

    def post_class(result, sign, line):
        return type(result).__name__ == CLEF_OF[(sign, line)]

    def raises(sign, line):
        return {'ValueError': (sign, line) not in CLEF_OF}


# ------------------------------------------------------------------------------------------------ positions
@contract(G + 'PitchPositionReferenceSystem.compute_position', props=['C10'])
class compute_position:
    def inputs(g):
        L, a, o = any_pitch(g, 3)
        Lb = g.choice('Lb', range(7))
        ab = g.int('ab', -3, 3)
        ob = g.int('ob')
        return {'self': mk_refsys(g, mk_pitch(g, name_LA(Lb, ab), ob)), 'pitch': mk_pitch(g, name_LA(L, a), o)}

    modifies = ()

    def post_steps(result, self, pitch):
        b = self.base_pitch
        return result.line_space == staff_steps(letter_of(pitch), pitch.octave, letter_of(b), b.octave)

    def model(self, pitch):
        b = self.base_pitch
        return mk_position_fresh(staff_steps(letter_of(pitch), pitch.octave, letter_of(b), b.octave))


def mk_position_fresh(ls):
    p = PositionInStaff.__new__(PositionInStaff)
    p.line_space = ls
    return p


@contract(G + 'PositionInStaff.__str__', props=['C10'])
class position_str:
    def inputs(g):
        return {'self': mk_position(g, g.int('ls'))}

    modifies = ()

    def post_text(result, self):
        ls = self.line_space
        if ls % 2 == 0:
            return result == 'T@' + str(ls // 2 + 1)
        return result == 'S@' + str((ls - 1) // 2 + 1)

    def model(self):
        ls = self.line_space
        if ls % 2 == 0:
            return 'T@' + str(ls // 2 + 1)
        return 'S@' + str((ls - 1) // 2 + 1)


@contract(G + 'gkern_to_g_clef_pitch', props=['C10'])
class gkern_to_g_clef_pitch:
    """'T@n' / 'S@n' -> the natural Humdrum pitch d = 2n (+1 for a space) diatonic steps above 'c'."""
    def inputs(g):
        kind = g.choice('kind', ['T', 'S'])
        n = g.int('n')
        return {'gkern_content': kind + '@' + str(n), '_kind': kind, '_n': n}

    def post_pitch(result, kind, n):
        d = 2 * n + (1 if kind == 'S' else 0)
        return result == spell_by_distance(d, 0)


@contract(G + 'pitch_to_gkern_string', props=['C10'])
class pitch_to_gkern_string:
    """The C10 formula for every letter, accidental (|a| <= 3), octave and each of the seven clefs."""
    def inputs(g):
        L, a, o = any_pitch(g, 3)
        clef_cls = g.choice('clef', CLEF_CLASSES)
        return {'pitch': mk_pitch(g, name_LA(L, a), o), 'clef': mk_clef(g, clef_cls), '_L': L, '_a': a, '_o': o}

    modifies = ()

    def post_same_staff_position_under_G2(result, clef, L, a, o):
        Lb, ob = BOTTOM[type(clef).__name__]
        return result == agnostic_spelling(L, a, o, Lb, ob)

    def post_identity_under_G2(result, clef, L, a, o):
        if type(clef).__name__ != 'GClef':
            return True
        return result == spell(L, a, o)

    def post_bottom_line_is_e(result, clef, L, a, o):
        Lb, ob = BOTTOM[type(clef).__name__]
        return implies(conj(L == Lb, o == ob, a == 0), result == 'e')

    def model(pitch, clef):
        Lb, ob = BOTTOM[type(clef).__name__]
        return agnostic_spelling(letter_of(pitch), alt_of(pitch), pitch.octave, Lb, ob)


@contract(None, props=['C10'])
class lemma_translation:
    """Moving the pitch by k diatonic steps moves the agnostic pitch by k steps, under every clef (pure arithmetic on the
    staff-distance: distance(p + k) == distance(p) + k, the accidental is unchanged)."""
    def inputs(g):
        return {'L': g.int('L', 0, 6), 'o': g.int('o'), 'k': g.int('k'), 'Lb': g.int('Lb', 0, 6), 'ob': g.int('ob')}

    def post_shift(L, o, k, Lb, ob):
        D = 7 * o + L + k
        return staff_steps(D % 7, D // 7, Lb, ob) == staff_steps(L, o, Lb, ob) + k


# ------------------------------------------------------------------------------------------------ the converter of the agnostic tokenizers
from kernpy.core.tokenizers import AEKernTokenizer


class ProbeToken:
    """A token whose export hands its text to the pitch converter it receives: exposes the nested converter function of
    AEKernTokenizer.tokenize to the lemma below."""
    def __init__(self, text):
        self.text = text

    def export(self, **kwargs):
        return kwargs['convert_pitch_to_agnostic'](self.text)


@contract(None, props=['C10', 'C04'])
class callback_meaning:
    """The converter that the agnostic tokenizers pass to Token.export maps every Humdrum spelling to the spelling that occupies
    the same staff position under G2, for every supported clef interpretation with any number of octave marks:
    real code of the nested function, create_clef, import_pitch and pitch_to_gkern_string, executed symbolically."""
    def inputs(g):
        L, a, o = any_pitch(g, 3)
        sign = g.choice('sign', ['G', 'F', 'C'])
        line = g.choice('line', [1, 2, 3, 4])
        g.assume((sign, line) in CLEF_OF)
        return {'L': L, 'a': a, 'o': o, 'sign': sign, 'line': line,
                'enc': '*clef' + sign + '^' * g.int('marks_up', 0) + 'v' * g.int('marks_down', 0) + str(line)}

    def post_same_staff_position(L, a, o, sign, line, enc):
        tz = AEKernTokenizer(token_categories=set(), last_clef=enc)
        Lb, ob = BOTTOM[CLEF_OF[(sign, line)]]
        return tz.tokenize(ProbeToken(spell(L, a, o))) == agnostic_spelling(L, a, o, Lb, ob)
