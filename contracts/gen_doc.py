"""Generator of well-formed Humdrum documents from a reference spine-path model, with an abstract description of every cell
that is independent of kernpy's parser (the oracle of the document-level contracts, DESIGN 3 'Grid and spine model').

Used only natively: by the bounded stand-ins of the document-level functions and by witness search.  Everything random is
drawn from the rng handed in (seeded by VERIF_SEED)."""
import random

__pyvc_native_data__ = True

SAFE_DECOS = list('klmstJKLMNOSTVW"$\'()/:;[\\]^_`{}~')     # note signifiers that do not combine with their neighbours
REST_DECOS = list(";()'{}")
COMPOUND_DECOS = ['&(', '&)', 'Ww', '[y', '(', ')', 'w', 'y', '[', 'L']   # combine with neighbours; the ones whose sorted
# concatenation is re-tokenised differently (< > ? x xx yy L> J<) belong to the known finding extended_round_trip_combining_signifiers
LETTERS = 'abcdefg'
BAR_TYPES = ['', '', '', '||', '!|:', ':|!', ':|!|:', '|!']
KERN_INTERPS = [['*clefG2', '*clefF4', '*clefC3', '*clefGv2', '*clefC1'], ['*k[]', '*k[f#]', '*k[b-e-]'], ['*M4/4', '*M3/4', '*M6/8'],
                ['*met(c)', '*met(c|)'], ['*C:', '*a:', '*F#:'], ['*xywh-1:10,20,300,40', '*xywh-2:5,6,70,80', '*xywh-1:15,25,30,45'],
                ['*staff1', '*staff2'], ['*MM120'], ['*Ipiano', '*I"Violin']]
# texts that the kern grammar would read as notes / rests / chords: in another spine type they are plain words
KERN_LOOKALIKES = ['4c', 'e-', 'a', '8r', '4c 4e', '2.dd#L', 'r', '16GG']
TEXT_WORDS = ['Hel-', '-lo', 'world', 'la', 'col·lec', 'a@b', 'ño', 'dó', '"quoted"', 'it\'s', 'a,b', 'two words', 'Ky-', 'ri-', 'e', '4c', 'r',
              'x y z', 'naïve', '"open', 'tab?', '&amp;']
DYNAM_WORDS = ['f', 'p', 'pp', 'ff', 'mf', 'sfz', '<', '>', '(', ')', 'cresc.']
HARM_WORDS = ['C', 'G7', 'Am', 'F/A', 'Dm7', 'I', 'V7', 'ii6']
FING_WORDS = ['1', '2', '3', '4', '5', '1 3', '2-3']
SPINE_TYPES = ['**kern', '**text', '**dynam', '**dyn', '**harm', '**mxhm', '**fing', '**root', '**silbe']


class NoteDesc:
    def __init__(self, dur, pitch, acc, decos, text):
        self.dur, self.pitch, self.acc, self.decos, self.text = dur, pitch, acc, decos, text   # decos: as written (repetitions kept)

    def pd(self):
        """(encoding, category name) of the pitch/duration parts in canonical order"""
        out = [(d, 'DURATION') for d in self.dur]
        out.append((self.pitch, 'REST' if self.pitch == 'r' else 'PITCH'))
        if self.acc:
            out.append((self.acc, 'ALTERATION'))
        return out

    def ekern(self, decos=None):
        decos = sorted(set(self.decos if decos is None else decos))
        body = '@'.join(e for e, _ in self.pd())
        return body + ('·' + '·'.join(decos) if decos else '')


class Cell:
    def __init__(self, kind, text, spine, col, notes=None, exp=None):
        self.kind, self.text, self.spine, self.col, self.notes = kind, text, spine, col, notes or []
        self.exp = exp          # expected default extended export of the cell when it differs from the text (barlines, notes)
        self.parent = None      # (row index, column) of the cell above on the same spine path; None for headers
        self.row = None

    def expected_ekern(self):
        if self.kind in ('note', 'rest'):
            return self.notes[0].ekern()
        if self.kind == 'chord':
            alld = [d for n in self.notes for d in n.decos]       # the listener shares one decoration list per chord
            return ' '.join(n.ekern(alld) for n in self.notes)
        return self.exp if self.exp is not None else self.text


class Row:
    def __init__(self, kind, cells, text=None):
        self.kind, self.cells = kind, cells     # kind: global | header | interp | data | bar | ops | fcomment
        self.text = text if text is not None else '\t'.join(c.text for c in cells)


class Score:
    def __init__(self, rows, headers):
        self.rows, self.headers = rows, headers

    def text(self, newline='\n', final_newline=True):
        t = newline.join(r.text for r in self.rows)
        return t + (newline if final_newline else '')

    def grid_rows(self):
        return [r for r in self.rows if r.kind != 'global']


def gen_duration(rng, allow_grace=True):
    base = rng.choice(['1', '2', '4', '8', '16', '32', '4', '8', '3%2', '12', '0', '00'])
    dots = ['.'] * rng.choice([0, 0, 0, 1, 1, 2])
    grace = [rng.choice(['q', 'qq', 'p', 'P'])] if allow_grace and rng.random() < 0.12 else []
    return [base] + dots + grace


def gen_pitch(rng):
    k = rng.choice([1, 1, 1, 2, 2, 3, 4])
    c = rng.choice(LETTERS)
    return (c if rng.random() < 0.6 else c.upper()) * k


def scatter_rest(rng, dur_text, decos):
    """rests: signifiers only before the duration or after the rest sign"""
    before = [d for d in decos if rng.random() < 0.5]
    after = [d for d in decos if d not in before]
    return ''.join(before) + dur_text + 'r' + ''.join(after)


def scatter(rng, core_parts, decos):
    """the written form of a note: the core parts in grammar order with the signifiers scattered at the positions the grammar
    allows (before the duration, after it, after the pitch, after the accidental), in random order, with repetitions"""
    slots = [[] for _ in range(len(core_parts) + 1)]
    for d in decos:
        slots[rng.randrange(len(slots))].append(d)
    out = ''
    for i, part in enumerate(core_parts):
        out += ''.join(slots[i]) + part
    return out + ''.join(slots[-1])


def gen_note(rng, plain=False, in_chord=False, accidentals=True, compound=False):
    dur = gen_duration(rng, allow_grace=not in_chord)
    pitch = gen_pitch(rng)
    acc = rng.choice([None, None, '#', '-', '##', '--', 'n', '#', '-']) if accidentals else None
    if acc and not plain and rng.random() < 0.15:
        acc += rng.choice(['x', 'X', 'i', 'I', 'j', 'Z', 'y', 'yy', 'Y', 'YY'])
    decos = []
    if not plain:
        for _ in range(rng.choice([0, 0, 1, 1, 2, 3, 4])):
            decos.append(rng.choice(SAFE_DECOS))
        if decos and rng.random() < 0.3:
            decos.append(rng.choice(decos))          # repetition
    # duration marks stay together (number, dots, grace mark): the grammar reads them as one duration
    core = [''.join(dur), pitch] + ([acc] if acc else [])
    text = scatter(rng, core, decos)
    if compound and rng.random() < 0.5:
        # signifiers that combine with their neighbours (outside the canonicity claim; the oracle fields are not valid for them)
        extra = [rng.choice(COMPOUND_DECOS) for _ in range(rng.choice([1, 2, 3]))]
        text = ''.join(extra[:1]) + text + ''.join(extra[1:])
    return NoteDesc(dur, pitch, acc, decos, text)


def gen_rest(rng, plain=False):
    dur = gen_duration(rng, allow_grace=False)
    decos = [] if plain or rng.random() < 0.6 else [rng.choice(REST_DECOS)]
    text = scatter_rest(rng, ''.join(dur), decos)
    return NoteDesc(dur, 'r', None, decos, text)


def gen_kern_data(rng, spine, col, plain=False, chords=True, accidentals=True, compound=False):
    r = rng.random()
    if r < 0.12:
        return Cell('null', '.', spine, col)
    if r < 0.27:
        n = gen_rest(rng, plain)
        return Cell('rest', n.text, spine, col, [n])
    if r < 0.42 and chords:
        notes = [gen_note(rng, plain, True, accidentals, compound) for _ in range(rng.choice([2, 2, 3]))]
        return Cell('chord', ' '.join(n.text for n in notes), spine, col, notes)
    n = gen_note(rng, plain, False, accidentals, compound)
    return Cell('note', n.text, spine, col, [n])


def gen_other_data(rng, htype, spine, col):
    if rng.random() < 0.2:
        return Cell('null', '.', spine, col)
    words = {'**text': TEXT_WORDS, '**silbe': TEXT_WORDS, '**dynam': DYNAM_WORDS, '**dyn': DYNAM_WORDS, '**harm': HARM_WORDS,
             '**mxhm': HARM_WORDS, '**fing': FING_WORDS}.get(htype, TEXT_WORDS)
    if htype in ('**text', '**silbe') and rng.random() < 0.1:
        return Cell('text', rng.choice(KERN_LOOKALIKES), spine, col)
    return Cell('text', rng.choice(words), spine, col)


def gen_score(rng, spines=None, measures=None, allow_splits=True, kern_only=False, plain=False, comments=True, opening_barline=None,
              final_barline=None, signatures_first=True, mid_signatures=False, non_ascii=True, unknown_types=False, chords=True, accidentals=True, compound=False, nested=True, hidden_bars=False, quiet=False, early_end=False):
    """A well-formed score.  The live spine paths are tracked here (the reference model): every cell records the cell above it on
    its own path (both branches of a split -> the split cell; merged sub-spines -> the first join cell of their spine)."""
    nsp = spines if spines is not None else rng.choice([1, 1, 2, 2, 3, 4])
    headers = ['**kern'] + [('**kern' if kern_only or rng.random() < 0.45 else rng.choice(SPINE_TYPES[1:-2] + (['**silbe'] if unknown_types else [])))
                            for _ in range(nsp - 1)]
    if not kern_only and '**root' in headers:
        headers = [h if h != '**root' else '**harm' for h in headers]
    rows = []
    if comments and rng.random() < 0.6:
        for _ in range(rng.choice([1, 2])):
            rows.append(Row('global', [], rng.choice(['!!!COM: Bach, J.S.', '!!!OTL: Test', '!! a global comment', '!!!voices: 2'])))
    live = []          # [(spine id, (row index, col) of the cell above)]
    hcells = [Cell('header', h, i, i) for i, h in enumerate(headers)]
    rows.append(Row('header', hcells))
    live = [(i, (len(rows) - 1, i)) for i in range(nsp)]

    def add_row(kind, make):
        cells = []
        for col, (sid, above) in enumerate(live):
            c = make(sid, col)
            c.parent = above
            cells.append(c)
        rows.append(Row(kind, cells))
        ri = len(rows) - 1
        return cells, ri

    def advance(cells, ri):
        nonlocal live
        new = []
        col = 0
        while col < len(cells):
            c = cells[col]
            sid = live[col][0]
            if c.text in ('*^', '*+'):
                new.append((sid, (ri, col)))
                new.append((sid, (ri, col)))
            elif c.text == '*v':
                new.append((sid, (ri, col)))
                while col + 1 < len(cells) and cells[col + 1].text == '*v' and live[col + 1][0] == sid:
                    col += 1
            elif c.text == '*-':
                pass
            else:
                new.append((sid, (ri, col)))
            col += 1
        live = new

    def simple_row(kind, make):
        cells, ri = add_row(kind, make)
        advance(cells, ri)

    def signature_rows():
        for group in rng.sample(KERN_INTERPS[:6], rng.choice([1, 2, 3])):
            choice = rng.choice(group)
            same = rng.random() < 0.7

            def make(sid, col):
                if headers[sid] == '**kern' or rng.random() < 0.3:
                    return Cell('interp', choice if same else rng.choice(group), sid, col)
                return Cell('nullinterp', '*', sid, col)
            simple_row('interp', make)
    if signatures_first:
        signature_rows()
    nmeasures = measures if measures is not None else rng.choice([1, 2, 3, 4])
    open_bar = opening_barline if opening_barline is not None else rng.random() < 0.4
    last_bar = final_barline if final_barline is not None else rng.random() < 0.6
    barno = 1
    # (quiet) whole measures of null tokens in some spines, never in spine 0
    quiet_measures = {(sid, m) for sid in range(1, nsp) for m in range(nmeasures) if quiet and rng.random() < 0.35}
    for m in range(nmeasures):
        if m > 0 or open_bar:
            bt = rng.choice(BAR_TYPES)
            num = str(barno) if rng.random() < 0.7 else ''
            dbl = '=' if rng.random() < 0.1 else ''
            fer = ';' if rng.random() < 0.15 else ''            # a fermata on the barline
            text = '=' + dbl + num + bt + fer
            exp = '=' + dbl + bt + fer
            if hidden_bars and rng.random() < 0.25:
                # an invisible barline ('-' after the number): kernpy flags the token hidden and exports a null token in its place
                text = '=' + dbl + num + '-' + bt + fer
                exp = '.'
            simple_row('bar', lambda sid, col: Cell('bar', text, sid, col, exp=exp))
            barno += 1
        if mid_signatures and m > 0 and rng.random() < 0.5:
            signature_rows()
        group = None        # (first column, number of sub-spines) of the split that is open in this measure
        inner_first = None  # for a nested split: (column of the inner pair)

        def ops_row(marks):
            simple_row('ops', lambda sid, col: Cell('op', marks.get(col, '*'), sid, col))

        if early_end and m > 0 and len(live) >= 2 and rng.random() < 0.3:
            # a spine that ends before the others (never the first one): a terminator in its column only
            ops_row({rng.randrange(1, len(live)): '*-'})

        def close_group(final=False):
            nonlocal group, inner_first
            t, n = group
            kcols = [c for c, (sid, _) in enumerate(live) if headers[sid] == '**kern' and not (t <= c < t + n)]
            if n == 2 and allow_splits and kcols and not final and rng.random() < 0.3:
                # one record in which a spine joins while another one splits: the number of columns stays, the columns shift
                c = rng.choice(kcols)
                ops_row({t: '*v', t + 1: '*v', c: '*^'})
                group, inner_first = ((c, 2) if c < t else (c - 1, 2)), None
                return
            if n == 2:
                ops_row({t: '*v', t + 1: '*v'})
            elif rng.random() < 0.5:
                ops_row({t: '*v', t + 1: '*v', t + 2: '*v'})          # all three sub-spines at once
            else:
                i = inner_first
                ops_row({i: '*v', i + 1: '*v'})                        # the inner pair first ...
                ops_row({t: '*v', t + 1: '*v'})                        # ... then the outer pair
            group, inner_first = None, None
        for d in range(rng.choice([1, 2, 3])):
            if allow_splits and group is None and rng.random() < 0.25:
                kcols = [c for c, (sid, _) in enumerate(live) if headers[sid] == '**kern']
                target = rng.choice(kcols)
                ops_row({target: '*^'})
                group = (target, 2)
                if mid_signatures and rng.random() < 0.35:
                    # a clef written right after the split, in one of the two sub-spines only (the other one keeps the clef in force)
                    which = target + rng.choice([0, 1])
                    clef = rng.choice(KERN_INTERPS[0])
                    simple_row('interp', lambda sid, col: Cell('interp', clef, sid, col) if col == which else Cell('nullinterp', '*', sid, col))
            elif allow_splits and group is not None and group[1] == 2 and nested and rng.random() < 0.35:
                t = group[0] + rng.choice([0, 1])                         # split the left or the right sub-spine again
                ops_row({t: '*^'})
                inner_first = t
                group = (group[0], 3)
            if comments and rng.random() < 0.12:
                simple_row('fcomment', lambda sid, col: Cell('fcomment', rng.choice(['!', '!a field comment', '!LO:TX']), sid, col))
            if comments and rng.random() < 0.08:
                rows.append(Row('global', [], '!! inner comment %d' % len(rows)))

            kern_texts = []

            def data(sid, col):
                if quiet and (sid, m) in quiet_measures:
                    return Cell('null', '.', sid, col)       # a spine that is silent for this whole measure
                if headers[sid] == '**kern':
                    c = gen_kern_data(rng, sid, col, plain, chords, accidentals, compound)
                    if c.kind != 'null':
                        kern_texts.append(c.text)
                    return c
                if headers[sid] in ('**text', '**silbe') and kern_texts and rng.random() < 0.12:
                    # the very text of a note of this line as a syllable: same characters, another kind of token
                    return Cell('text', rng.choice(kern_texts), sid, col)
                return gen_other_data(rng, headers[sid], sid, col)
            simple_row('data', data)
            if group is not None and (rng.random() < 0.5 or d == 2):
                close_group(final=(d == 2))
        while group is not None:
            close_group(final=True)
    if last_bar:
        bt = rng.choice(['', '=', '||', ':|!'])
        text = ('=' + bt if bt != '=' else '==') + (';' if rng.random() < 0.15 else '')
        simple_row('bar', lambda sid, col: Cell('bar', text, sid, col, exp=text))
    simple_row('ops', lambda sid, col: Cell('op', '*-', sid, col))
    if comments and rng.random() < 0.4:
        rows.append(Row('global', [], '!!!ENC: someone'))
    for ri, r in enumerate(rows):
        for c in r.cells:
            c.row = ri
    return Score(rows, headers)


def measures_of(score):
    """[(first row, last row)] of each measure in grid rows (kernpy's counting: a measure starts at a barline row, or at the
    first note / rest / chord / null data row when no barline came before), plus the index list of all grid rows"""
    starts = []
    for ri, r in enumerate(score.rows):
        if r.kind == 'bar' or (r.kind == 'data' and not starts):
            starts.append(ri)
    return starts
