"""C20 -- file and command-line paths equal the in-memory API (DESIGN 4.20): call-equivalence contracts.
dump and dumps build their options with the same keyword mapping and hand the same document / options on; store writes exactly
what export returns; load / loads differ only in the reader.  What the operating system, argparse and glob do is assumed."""
from pyvc.contract import contract
from pyvc.ghost import ite, conj, disj, implies, iff, opaque, ghost_events, ghost_set, ghost_get, symbolic_run
from kernpy.core.generic import Generic

GEN = 'kernpy.core.generic.Generic.'
PUB = 'kernpy.io.public.'
KEYS = ['spine_types', 'include', 'exclude', 'from_measure', 'to_measure', 'encoding', 'instruments', 'show_measure_numbers', 'spine_ids']


def record(name, **values):
    calls = ghost_get('calls', [])
    ghost_set('calls', calls + [(name, values)])


def calls_of(name):
    return [v for n, v in ghost_get('calls', []) if n == name]


# ---- summaries (sound abstractions used at call sites; each function has its own verified contract elsewhere) -----------------------------
@contract(GEN + 'parse_options_to_ExportOptions', props=['C20'], name='parse_options_summary', local=True,
          assumed='abstraction of parse_options_to_ExportOptions (verified by contract parse_options, C05): an options object determined by the keyword arguments')
class parse_options_summary:
    def model(kwargs):
        o = opaque('options')
        record('parse_options', kwargs=dict(kwargs), result=o)
        return o


@contract(GEN + 'export', props=['C20'], name='generic_export_summary', local=True,
          assumed='abstraction of Generic.export: a string determined by (document, options); the export itself is the subject of C03-C07')
class generic_export_summary:
    def model(document, options):
        r = opaque('exported text')
        record('export', document=document, options=options, result=r)
        return r


@contract('kernpy.core._io._write', props=['C20'], name='write_summary', local=True,
          assumed='abstraction of _write (verified by contract io_write): stores content at path')
class write_summary:
    def model(path, content):
        record('write', path=path, content=content)
        return None


@contract(GEN + 'store', props=['C20'])
class generic_store:
    """store(document, path, options) writes, at `path`, exactly the string export(document, options) returns"""
    uses = ('generic_export_summary', 'write_summary')
    def inputs(g):
        return {'cls': Generic, 'document': opaque('document'), 'path': opaque('path'), 'options': opaque('options')}

    def post_writes_the_export(document, path, options):
        ex, wr = calls_of('export'), calls_of('write')
        return conj(len(ex) == 1, len(wr) == 1, ex[0]['document'] is document, ex[0]['options'] is options,
                    wr[0]['path'] is path, wr[0]['content'] is ex[0]['result'])


def option_inputs(g):
    return {k: opaque(k) for k in KEYS}


def mapping_ok(call, vals):
    """the keyword mapping of dump / dumps: every option under its own name, `encoding` as kern_type"""
    kw = call['kwargs']
    want = {('kern_type' if k == 'encoding' else k): vals[k] for k in KEYS}
    return conj(set(kw.keys()) == set(want.keys()), all(kw[k] is want[k] for k in want))


@contract(PUB + 'dumps', props=['C20', 'C13'])
class public_dumps:
    uses = ('parse_options_summary', 'generic_export_summary')

    def inputs(g):
        d = option_inputs(g)
        d['document'] = opaque('document')
        return d

    def post_options_and_export(result, document, spine_types, include, exclude, from_measure, to_measure, encoding, instruments,
                                show_measure_numbers, spine_ids):
        vals = {'spine_types': spine_types, 'include': include, 'exclude': exclude, 'from_measure': from_measure, 'to_measure': to_measure,
                'encoding': encoding, 'instruments': instruments, 'show_measure_numbers': show_measure_numbers, 'spine_ids': spine_ids}
        po, ex = calls_of('parse_options'), calls_of('export')
        return conj(len(po) == 1, len(ex) == 1, mapping_ok(po[0], vals), ex[0]['document'] is document, ex[0]['options'] is po[0]['result'],
                    result is ex[0]['result'])


@contract(PUB + 'dump', props=['C20'])
class public_dump:
    """dump builds the options exactly as dumps does and stores export(document, options) at fp"""
    uses = ('parse_options_summary', 'generic_export_summary', 'write_summary')
    def inputs(g):
        d = option_inputs(g)
        d['document'] = opaque('document')
        d['fp'] = opaque('fp')
        return d

    def post_same_options_then_store(document, fp, spine_types, include, exclude, from_measure, to_measure, encoding, instruments,
                                     show_measure_numbers, spine_ids):
        vals = {'spine_types': spine_types, 'include': include, 'exclude': exclude, 'from_measure': from_measure, 'to_measure': to_measure,
                'encoding': encoding, 'instruments': instruments, 'show_measure_numbers': show_measure_numbers, 'spine_ids': spine_ids}
        po, ex, wr = calls_of('parse_options'), calls_of('export'), calls_of('write')
        return conj(len(po) == 1, len(ex) == 1, len(wr) == 1, mapping_ok(po[0], vals), ex[0]['document'] is document,
                    ex[0]['options'] is po[0]['result'], wr[0]['path'] is fp, wr[0]['content'] is ex[0]['result'])


@contract('kernpy.core._io._write', props=['C20'], name='io_write', use_at_calls=False)
class io_write:
    """_write(path, content): the file at `path` is opened for truncating write and receives `content`, unchanged, in one write;
    a missing parent directory is created first (A-fs: os.path / os.makedirs / open behave as documented)"""
    def inputs(g):
        return {'path': opaque('path'), 'content': g.str_sym('content', ['**kern\n4c\n*-\n'])}

    def post_one_truncating_write_of_content(path, content):
        ev = ghost_events()
        opens = [e for e in ev if e[1] == 'open']
        writes = [e for e in ev if e[0] == 'file' and e[1] == 'write']
        return conj(len(opens) == 1, opens[0][2][0] is path, opens[0][2][1] in ('w', 'w+'), len(writes) == 1, writes[0][2][0] == content)

    def post_parent_directory_created_when_missing():
        ev = ghost_events()
        exists = [e for e in ev if e[1] == 'os.path.exists']
        mk = [e for e in ev if e[1] == 'os.makedirs']
        return conj(len(exists) == 1, len(mk) <= 1)


# ------------------------------------------------------------------------------------------------ the public readers and concat
@contract(GEN + 'create', props=['C20'], name='generic_create_summary', local=True,
          assumed='abstraction of Generic.create (verified by contract generic_create): a result determined by the text and the strict flag')
class generic_create_summary:
    def model(content, strict):
        r = opaque('created')
        record('create', content=content, strict=strict, result=r)
        return r


@contract(GEN + 'read', props=['C20'], name='generic_read_summary', local=True,
          assumed='abstraction of Generic.read (verified by contract generic_read): a result determined by the path and the strict flag')
class generic_read_summary:
    def model(path, strict):
        r = opaque('read')
        record('read', path=path, strict=strict, result=r)
        return r


@contract(GEN + 'concat', props=['C20', 'C19'], name='generic_concat_summary', local=True,
          assumed='abstraction of Generic.concat (verified by contract concat_bookkeeping): a result determined by the fragments and the separator')
class generic_concat_summary:
    def model(contents, separator):
        r = opaque('concatenated')
        record('concat', contents=contents, separator=separator, result=r)
        return r


@contract(PUB + 'loads', props=['C20'])
class public_loads:
    """loads(s, raise_on_errors) is Generic.create(s, strict=raise_on_errors): the text and the flag are handed over unchanged"""
    uses = ('generic_create_summary',)

    def inputs(g):
        return {'s': opaque('text'), 'raise_on_errors': g.choice('strict', [False, True])}

    def post_hands_over(result, s, raise_on_errors):
        c = calls_of('create')
        return conj(len(c) == 1, c[0]['content'] is s, c[0]['strict'] == raise_on_errors, result is c[0]['result'])


@contract(PUB + 'load', props=['C20'])
class public_load:
    """load(fp, raise_on_errors) is Generic.read(fp, strict=raise_on_errors)"""
    uses = ('generic_read_summary',)

    def inputs(g):
        return {'fp': opaque('path'), 'raise_on_errors': g.choice('strict', [False, True])}

    def post_hands_over(result, fp, raise_on_errors):
        c = calls_of('read')
        return conj(len(c) == 1, c[0]['path'] is fp, c[0]['strict'] == raise_on_errors, result is c[0]['result'])


@contract(PUB + 'concat', props=['C20', 'C19'])
class public_concat:
    """kp.concat(contents, separator=...) is Generic.concat with the same fragments and separator"""
    uses = ('generic_concat_summary',)

    def inputs(g):
        return {'contents': opaque('fragments'), 'separator': g.choice('separator', ['\n', '', None])}

    def post_hands_over(result, contents, separator):
        c = calls_of('concat')
        return conj(len(c) == 1, c[0]['contents'] is contents, c[0]['separator'] == separator, result is c[0]['result'])


# ------------------------------------------------------------------------------------------------ the directory walker of the command line
A_GLOB = ('A-glob: Path.glob(pattern) lists the files of the directory that match the pattern, Path.rglob(pattern) those of the whole '
          'tree below it; each file once')


class FileStub:
    def __init__(self, name, folder):
        self.name, self.folder = name, folder


class DirStub:
    """a directory known through what its glob / rglob calls answer for the two patterns of a converter"""
    def __init__(self, flat, deep, patterns):
        self.flat, self.deep, self.patterns = flat, deep, patterns

    def glob(self, pattern):
        return self.flat[0] if pattern == self.patterns[0] else self.flat[1]

    def rglob(self, pattern):
        return self.deep[0] if pattern == self.patterns[0] else self.deep[1]


def mk_files(g, name):
    return g.seq(name, lambda e: e.new(FileStub, {'name': e.str_sym('name', ['a.krn', 'b.krn', 'a.kern']), 'folder': e.int('folder', 0)}, None))


@contract('kernpy.__main__.find_files', props=['C20'])
class find_files:
    """C20 (directory invocations convert every file): the files handed to the converter are exactly the matches of the first pattern
    followed by the matches of the second one -- of the directory itself, or of the whole tree when recursive -- each match once, none
    dropped (files of the same name in different folders are different files)"""
    assumes = (A_GLOB,)

    def inputs(g):
        patterns = ['*.krn', '*.kern']
        d = DirStub([mk_files(g, 'flat0'), mk_files(g, 'flat1')], [mk_files(g, 'deep0'), mk_files(g, 'deep1')], patterns)
        return {'directory': d, 'patterns': patterns, 'recursive': g.bool('recursive')}

    def post_every_match_once(result, directory, recursive):
        lists = directory.deep if recursive else directory.flat
        return conj(len(result) == len(lists[0]) + len(lists[1]), list(result) == lists[0] + lists[1])
