"""C20 -- file and command-line paths equal the in-memory API (DESIGN 4.20): call-equivalence contracts.
dump and dumps build their options with the same keyword mapping and hand the same document / options on; store writes exactly
what export returns; load / loads differ only in the reader.  What the operating system, argparse and glob do is assumed."""
from pyvc.contract import contract
from pyvc.ghost import ite, conj, disj, implies, iff, opaque, ghost_events, ghost_set, ghost_get, symbolic_run
from kernpy.core.generic import Generic

GEN = 'kernpy.core.generic.Generic.'
PUB = 'kernpy.io.public.'
KEYS = ['spine_types', 'include', 'exclude', 'from_measure', 'to_measure', 'encoding', 'instruments', 'show_measure_numbers', 'spine_ids']


def record(name, **values):
    calls = ghost_get('calls', [])
    ghost_set('calls', calls + [(name, values)])


def calls_of(name):
    return [v for n, v in ghost_get('calls', []) if n == name]


# ---- summaries (sound abstractions used at call sites; each function has its own verified contract elsewhere) -----------------------------
@contract(GEN + 'parse_options_to_ExportOptions', props=['C20'], name='parse_options_summary', local=True,
          assumed='abstraction of parse_options_to_ExportOptions (verified by contract parse_options, C05): an options object determined by the keyword arguments')
class parse_options_summary:
    def model(kwargs):
        o = opaque('options')
        record('parse_options', kwargs=dict(kwargs), result=o)
        return o


@contract(GEN + 'export', props=['C20'], name='generic_export_summary', local=True,
          assumed='abstraction of Generic.export: a string determined by (document, options); the export itself is the subject of C03-C07')
class generic_export_summary:
    def model(document, options):
        r = opaque('exported text')
        record('export', document=document, options=options, result=r)
        return r


@contract('kernpy.core._io._write', props=['C20'], name='write_summary', local=True,
          assumed='abstraction of _write (verified by contract io_write): stores content at path')
class write_summary:
    def model(path, content):
        record('write', path=path, content=content)
        return None


@contract(GEN + 'store', props=['C20'])
class generic_store:
    """store(document, path, options) writes, at `path`, exactly the string export(document, options) returns"""
    uses = ('generic_export_summary', 'write_summary')
    def inputs(g):
        return {'cls': Generic, 'document': opaque('document'), 'path': opaque('path'), 'options': opaque('options')}

    def post_writes_the_export(document, path, options):
        ex, wr = calls_of('export'), calls_of('write')
        return conj(len(ex) == 1, len(wr) == 1, ex[0]['document'] is document, ex[0]['options'] is options,
                    wr[0]['path'] is path, wr[0]['content'] is ex[0]['result'])


def option_inputs(g):
    return {k: opaque(k) for k in KEYS}


def mapping_ok(call, vals):
    """the keyword mapping of dump / dumps: every option under its own name, `encoding` as kern_type"""
    kw = call['kwargs']
    want = {('kern_type' if k == 'encoding' else k): vals[k] for k in KEYS}
    return conj(set(kw.keys()) == set(want.keys()), all(kw[k] is want[k] for k in want))


@contract(PUB + 'dumps', props=['C20', 'C13'])
class public_dumps:
    uses = ('parse_options_summary', 'generic_export_summary')

    def inputs(g):
        d = option_inputs(g)
        d['document'] = opaque('document')
        return d

    def post_options_and_export(result, document, spine_types, include, exclude, from_measure, to_measure, encoding, instruments,
                                show_measure_numbers, spine_ids):
        vals = {'spine_types': spine_types, 'include': include, 'exclude': exclude, 'from_measure': from_measure, 'to_measure': to_measure,
                'encoding': encoding, 'instruments': instruments, 'show_measure_numbers': show_measure_numbers, 'spine_ids': spine_ids}
        po, ex = calls_of('parse_options'), calls_of('export')
        return conj(len(po) == 1, len(ex) == 1, mapping_ok(po[0], vals), ex[0]['document'] is document, ex[0]['options'] is po[0]['result'],
                    result is ex[0]['result'])


@contract(PUB + 'dump', props=['C20'])
class public_dump:
    """dump builds the options exactly as dumps does and stores export(document, options) at fp"""
    uses = ('parse_options_summary', 'generic_export_summary', 'write_summary')
    def inputs(g):
        d = option_inputs(g)
        d['document'] = opaque('document')
        d['fp'] = opaque('fp')
        return d

    def post_same_options_then_store(document, fp, spine_types, include, exclude, from_measure, to_measure, encoding, instruments,
                                     show_measure_numbers, spine_ids):
        vals = {'spine_types': spine_types, 'include': include, 'exclude': exclude, 'from_measure': from_measure, 'to_measure': to_measure,
                'encoding': encoding, 'instruments': instruments, 'show_measure_numbers': show_measure_numbers, 'spine_ids': spine_ids}
        po, ex, wr = calls_of('parse_options'), calls_of('export'), calls_of('write')
        return conj(len(po) == 1, len(ex) == 1, len(wr) == 1, mapping_ok(po[0], vals), ex[0]['document'] is document,
                    ex[0]['options'] is po[0]['result'], wr[0]['path'] is fp, wr[0]['content'] is ex[0]['result'])


@contract('kernpy.core._io._write', props=['C20'], name='io_write', use_at_calls=False)
class io_write:
    """_write(path, content): the file at `path` is opened for truncating write and receives `content`, unchanged, in one write;
    a missing parent directory is created first (A-fs: os.path / os.makedirs / open behave as documented)"""
    def inputs(g):
        return {'path': opaque('path'), 'content': g.str_sym('content', ['**kern\n4c\n*-\n'])}

    def post_one_truncating_write_of_content(path, content):
        ev = ghost_events()
        opens = [e for e in ev if e[1] == 'open']
        writes = [e for e in ev if e[0] == 'file' and e[1] == 'write']
        return conj(len(opens) == 1, opens[0][2][0] is path, opens[0][2][1] in ('w', 'w+'), len(writes) == 1, writes[0][2][0] == content)

    def post_parent_directory_created_when_missing():
        ev = ghost_events()
        exists = [e for e in ev if e[1] == 'os.path.exists']
        mk = [e for e in ev if e[1] == 'os.makedirs']
        return conj(len(exists) == 1, len(mk) <= 1)


# ------------------------------------------------------------------------------------------------ the public readers and concat
@contract(GEN + 'create', props=['C20'], name='generic_create_summary', local=True,
          assumed='abstraction of Generic.create (verified by contract generic_create): a result determined by the text and the strict flag')
class generic_create_summary:
    def model(content, strict):
        r = opaque('created')
        record('create', content=content, strict=strict, result=r)
        return r


@contract(GEN + 'read', props=['C20'], name='generic_read_summary', local=True,
          assumed='abstraction of Generic.read (verified by contract generic_read): a result determined by the path and the strict flag')
class generic_read_summary:
    def model(path, strict):
        r = opaque('read')
        record('read', path=path, strict=strict, result=r)
        return r


@contract(GEN + 'concat', props=['C20', 'C19'], name='generic_concat_summary', local=True,
          assumed='abstraction of Generic.concat (verified by contract concat_bookkeeping): a result determined by the fragments and the separator')
class generic_concat_summary:
    def model(contents, separator):
        r = opaque('concatenated')
        record('concat', contents=contents, separator=separator, result=r)
        return r


@contract(PUB + 'loads', props=['C20'])
class public_loads:
    """loads(s, raise_on_errors) is Generic.create(s, strict=raise_on_errors): the text and the flag are handed over unchanged"""
    uses = ('generic_create_summary',)

    def inputs(g):
        return {'s': opaque('text'), 'raise_on_errors': g.choice('strict', [False, True])}

    def post_hands_over(result, s, raise_on_errors):
        c = calls_of('create')
        return conj(len(c) == 1, c[0]['content'] is s, c[0]['strict'] == raise_on_errors, result is c[0]['result'])


@contract(PUB + 'load', props=['C20'])
class public_load:
    """load(fp, raise_on_errors) is Generic.read(fp, strict=raise_on_errors)"""
    uses = ('generic_read_summary',)

    def inputs(g):
        return {'fp': opaque('path'), 'raise_on_errors': g.choice('strict', [False, True])}

    def post_hands_over(result, fp, raise_on_errors):
        c = calls_of('read')
        return conj(len(c) == 1, c[0]['path'] is fp, c[0]['strict'] == raise_on_errors, result is c[0]['result'])


@contract(PUB + 'concat', props=['C20', 'C19'])
class public_concat:
    """kp.concat(contents, separator=...) is Generic.concat with the same fragments and separator"""
    uses = ('generic_concat_summary',)

    def inputs(g):
        return {'contents': opaque('fragments'), 'separator': g.choice('separator', ['\n', '', None])}

    def post_hands_over(result, contents, separator):
        c = calls_of('concat')
        return conj(len(c) == 1, c[0]['contents'] is contents, c[0]['separator'] == separator, result is c[0]['result'])


# ------------------------------------------------------------------------------------------------ the directory walker of the command line
A_GLOB = ('A-glob: Path.glob(pattern) lists the files of the directory that match the pattern, Path.rglob(pattern) those of the whole '
          'tree below it; each file once')


class FileStub:
    def __init__(self, name, folder):
        self.name, self.folder = name, folder


class DirStub:
    """a directory known through what its glob / rglob calls answer for the two patterns of a converter"""
    def __init__(self, flat, deep, patterns):
        self.flat, self.deep, self.patterns = flat, deep, patterns

    def glob(self, pattern):
        return self.flat[0] if pattern == self.patterns[0] else self.flat[1]

    def rglob(self, pattern):
        return self.deep[0] if pattern == self.patterns[0] else self.deep[1]


def mk_files(g, name):
    return g.seq(name, lambda e: e.new(FileStub, {'name': e.str_sym('name', ['a.krn', 'b.krn', 'a.kern']), 'folder': e.int('folder', 0)}, None))


@contract('kernpy.__main__.find_files', props=['C20'])
class find_files:
    """C20 (directory invocations convert every file): the files handed to the converter are exactly the matches of the first pattern
    followed by the matches of the second one -- of the directory itself, or of the whole tree when recursive -- each match once, none
    dropped (files of the same name in different folders are different files)"""
    assumes = (A_GLOB,)

    def inputs(g):
        patterns = ['*.krn', '*.kern']
        d = DirStub([mk_files(g, 'flat0'), mk_files(g, 'flat1')], [mk_files(g, 'deep0'), mk_files(g, 'deep1')], patterns)
        return {'directory': d, 'patterns': patterns, 'recursive': g.bool('recursive')}

    def post_every_match_once(result, directory, recursive):
        lists = directory.deep if recursive else directory.flat
        return conj(len(result) == len(lists[0]) + len(lists[1]), list(result) == lists[0] + lists[1])


# ------------------------------------------------------------------------------------------------ the command-line handlers
from pyvc.ghost import uf_bool, uf_str, fresh_list
A_PATH = ('A-path: pathlib.Path(text) is a value determined by the text; is_file and with_suffix are functions of that text and str() '
          'returns it; glob / rglob as in A-glob')


class PathStub:
    def __init__(self, text):
        self.text = text

    def __str__(self):
        return self.text

    def is_file(self):
        return uf_bool('path.is_file', self.text)

    def with_suffix(self, suffix):
        return PathStub(uf_str('path.with_suffix', self.text, suffix))

    def glob(self, pattern):
        return ghost_get('glob')[0] if pattern in ('*.krn', '*.ekrn') else ghost_get('glob')[1]

    def rglob(self, pattern):
        return ghost_get('rglob')[0] if pattern in ('*.krn', '*.ekrn') else ghost_get('rglob')[1]


@contract('pathlib.Path', props=['C20'], name='pathlib_path', local=True, assumed=A_PATH)
class pathlib_path:
    def model(args):
        return PathStub(args[0])


class ArgsStub:
    def __init__(self, input_path, output_path, recursive):
        self.input_path, self.output_path, self.recursive, self.verbose = input_path, output_path, recursive, 0


def converter_summary(name):
    """the converter called by a handler: its two arguments are recorded, in call order"""
    def model(a, b):
        ghost_get('converter calls').append((a, b))
        return None
    return model


@contract('kernpy.core.exporter.kern_to_ekern', props=['C20'], name='kern_to_ekern_summary', local=True,
          assumed='abstraction of kern_to_ekern(input_file, output_file) (verified by contract kern_to_ekern): converts one file into another')
class kern_to_ekern_summary:
    def model(input_file, output_file):
        ghost_get('converter calls').append((input_file, output_file))
        return None


@contract('kernpy.core.exporter.ekern_to_krn', props=['C20'], name='ekern_to_krn_summary', local=True,
          assumed='abstraction of ekern_to_krn(input_file, output_file) (verified by contract ekern_to_krn)')
class ekern_to_krn_summary:
    def model(input_file, output_file):
        ghost_get('converter calls').append((input_file, output_file))
        return None


def handler_inputs(g):
    def files(name):
        return g.seq(name, lambda e: PathStub(e.str_sym('text', ['d/a.krn', 'd/sub/a.krn'])))
    ghost_set('glob', [files('flat0'), files('flat1')])
    ghost_set('rglob', [files('deep0'), files('deep1')])
    ghost_set('converter calls', fresh_list())
    out = g.choice('output', ['none', 'given'])
    return {'args': ArgsStub(g.str_sym('input', ['d/a.krn', 'd']), None if out == 'none' else g.str_sym('out', ['x.out']), g.bool('recursive')),
            '_out_given': out == 'given'}


def handler_post(args, out_given, suffix):
    calls = ghost_get('converter calls')
    src = args.input_path
    if uf_bool('path.is_file', src):
        # one file: converted into the given output file, or into the file of the same name with the converter's suffix
        if out_given:
            g_ok = len(args.output_path) > 0
            dst = args.output_path if g_ok else uf_str('path.with_suffix', src, suffix)
        else:
            dst = uf_str('path.with_suffix', src, suffix)
        return conj(len(calls) == 1, calls[0][0] == src, calls[0][1] == dst)
    # a directory: every match of the two patterns (of the whole tree with -r), each converted into its own sibling file
    lists = ghost_get('rglob') if args.recursive else ghost_get('glob')
    want = [(f.text, uf_str('path.with_suffix', f.text, suffix)) for f in lists[0]] + [(f.text, uf_str('path.with_suffix', f.text, suffix)) for f in lists[1]]
    return list(calls) == want


@contract('kernpy.__main__.handle_kern2ekern', props=['C20'])
class handle_kern2ekern:
    """C20 (the command line converts what the API converts): a file argument is handed to kern_to_ekern with the requested output (or
    the same path with the suffix .ekrn); a directory argument: every *.krn / *.kern file of it (of its whole tree with -r), each
    exactly once, into its own .ekrn sibling"""
    uses = ('kern_to_ekern_summary', 'pathlib_path')
    assumes = (A_PATH, A_GLOB)

    def inputs(g):
        return handler_inputs(g)

    def post_converts_exactly_the_requested_files(args, out_given):
        return handler_post(args, out_given, '.ekrn')


@contract('kernpy.__main__.handle_ekern2kern', props=['C20'])
class handle_ekern2kern:
    """as handle_kern2ekern, for *.ekrn / *.ekern files and the suffix .krn"""
    uses = ('ekern_to_krn_summary', 'pathlib_path')
    assumes = (A_PATH, A_GLOB)

    def inputs(g):
        return handler_inputs(g)

    def post_converts_exactly_the_requested_files(args, out_given):
        return handler_post(args, out_given, '.krn')
