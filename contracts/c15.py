"""C15 -- Document.to_transposed: the step of its breadth-first loop (DESIGN 4.15).

A loop-step contract: one iteration of `while not queue.empty()` from an arbitrary state of the walk.  The node taken from the queue
is rewritten iff it holds a note or rest (core class: no explicit accidental): its pitch sub-tokens get the transposed spelling T(spelling, interval, direction), every
other sub-token is copied (same text, same category, same order), the signifier list is kept, nothing else of the node changes; then
exactly the children of the node are enqueued, in order.  T is `transposer.transpose` (its meaning: C09, C16), used here as an
uninterpreted function of its arguments.  The conclusion for the whole loop (every node of the tree is taken exactly once) is the
standard argument for a breadth-first walk of a tree, not machine-checked here (A-bfs)."""
from pyvc.contract import contract
from pyvc.ghost import conj, disj, implies, iff, uf_str, symbolic_run
from contracts.shapes import mk_any_token
from kernpy.core.document import Document, Node
from kernpy.core.tokens import NoteRestToken, TokenCategory
from kernpy.core.transposer import transpose, IntervalsByName, AVAILABLE_INTERVALS

DOC = 'kernpy.core.document.Document.'
A_QUEUE = 'A-queue: queue.Queue used by a single thread is a first-in first-out list (get returns the oldest element, put appends)'
A_BFS = 'A-bfs: a loop that takes one node from a FIFO that starts with the root and enqueues exactly its children visits every node of a tree exactly once'
A_T = 'transpose(spelling, interval, direction) is a function of its arguments (its meaning is the subject of C09 / C16)'


class Fifo:
    """the queue of the walk: the element `get` returns next, and the list of the elements enqueued behind it"""
    def __init__(self, first, rest):
        self.first, self.rest = first, rest

    def empty(self):
        return False

    def get(self):
        return self.first

    def put(self, x):
        self.rest.append(x)


def T(spelling, interval, direction):
    if symbolic_run():
        return uf_str('T', spelling, interval, direction)
    return transpose(input_encoding=spelling, interval=IntervalsByName[interval], direction=direction)


@contract('kernpy.core.transposer.transpose', props=['C15'], name='transpose_summary', local=True, assumed=A_T)
class transpose_summary:
    def model(input_encoding, interval, direction):
        return uf_str('T.semitones', input_encoding, interval, direction)


def T_by_value(spelling, interval_value, direction):
    """the same function, addressed by the numeric interval the code passes"""
    if symbolic_run():
        return uf_str('T.semitones', spelling, interval_value, direction)
    return transpose(input_encoding=spelling, interval=interval_value, direction=direction)


def mk_queue_node(g, token):
    def child(e):
        n = e.new(Node, {'id': e.int('id')}, None)
        if not e.symbolic:
            n.id = e.int('id')
        return n
    kids = g.mlist('node.children', child)
    n = g.new(Node, {'id': g.int('node.id', 1), 'token': token, 'parent': None, 'children': kids, 'stage': 0, 'header_node': None,
                     'last_signature_nodes': None, 'last_spine_operator_node': None}, None)
    if not hasattr(n, 'fields'):
        n.id, n.token, n.parent, n.children, n.stage, n.header_node = 1, token, None, kids, 0, None
        n.last_signature_nodes, n.last_spine_operator_node = None, None
    return n


@contract(DOC + 'to_transposed', props=['C15'], name='to_transposed_step')
class to_transposed_step:
    step = 'while not queue.empty()'
    uses = ('transpose_summary',)
    assumes = (A_QUEUE, A_BFS, A_T)

    def inputs(g):
        kind = g.choice('node', ['note', 'chord', 'SimpleToken', 'BarToken', 'root'])
        token = None if kind == 'root' else mk_any_token(g, kind)
        node = mk_queue_node(g, token)
        waiting = g.mlist('queue.rest', lambda e: e.new(Node, {'id': e.int('id')}, None))
        interval = g.choice('interval', sorted(AVAILABLE_INTERVALS))        # all 40 names (the table lookup needs a concrete key)
        return {'interval': interval, 'direction': g.choice('direction', ['up', 'down']), 'queue': Fifo(node, waiting),
                '_first': node, '_token': token, '_waiting': waiting.copy(), '_kind': kind}

    def requires(token, kind):
        # C15's core class: single notes without an explicit accidental.  (Notes with an accidental sub-token and chord notes are the
        # classes the property names as known findings: see transposition_known_classes; nothing is claimed -- or encoded -- here.)
        if kind == 'note':
            return len([s for s in token.pitch_duration_subtokens if s.category == TokenCategory.ALTERATION]) == 0
        return True

    def modifies_objs(queue, first):
        return [first, queue.rest]

    def post_note_rewritten_everything_else_kept(first, token, kind, interval, direction):
        if kind == 'chord':
            return True             # outside the core class (known finding: chord notes are not transposed)
        if kind != 'note':
            return first.token is token
        new = first.token
        want_text = [T_by_value(s.encoding, IntervalsByName[interval], direction) if s.category == TokenCategory.PITCH else s.encoding
                     for s in token.pitch_duration_subtokens]
        return conj(type(new).__name__ == 'NoteRestToken', new is not token,
                    [s.encoding for s in new.pitch_duration_subtokens] == want_text,
                    [s.category for s in new.pitch_duration_subtokens] == [s.category for s in token.pitch_duration_subtokens],
                    new.decoration_subtokens is token.decoration_subtokens)

    def post_children_enqueued_in_order(queue, first, waiting):
        return queue.rest == waiting + first.children

    def post_loop_goes_on(flow):
        return flow == 'next'


# ------------------------------------------------------------------------------------------------ before and after the walk
from kernpy.core.document import MultistageTree
from pyvc.ghost import ghost_events


def mk_small_document(g):
    root = g.new(Node, {'id': 0, 'token': None, 'parent': None, 'children': [], 'stage': 0, 'header_node': None,
                        'last_signature_nodes': None, 'last_spine_operator_node': None}, None)
    tree = g.new(MultistageTree, {'root': root, 'stages': [[root]]}, None)
    doc = g.new(Document, {'tree': tree, 'measure_start_tree_stages': [], 'page_bounding_boxes': {}, 'header_stage': None}, None)
    if not hasattr(doc, 'fields'):
        root.id, root.token, root.parent, root.children, root.stage, root.header_node = 0, None, None, [], 0, None
        root.last_signature_nodes, root.last_spine_operator_node = None, None
        tree.root, tree.stages = root, [[root]]
        doc.tree, doc.measure_start_tree_stages, doc.page_bounding_boxes, doc.header_stage = tree, [], {}, None
    return doc


@contract(DOC + 'to_transposed', props=['C15'], name='to_transposed_head', use_at_calls=False)
class to_transposed_head:
    """At the head of the walk: an interval name outside the table or a direction other than 'up' / 'down' is refused with ValueError
    before anything is copied; otherwise the walk starts on a new Document object (never on the source) at the root of its tree, and
    nothing of the source has been written.  (That the *tree* of the new document shares its nodes with the source is the known
    finding of C15 -- the clause here is about the Document object only.)"""
    cut = 'while not queue.empty()'
    assumes = (A_QUEUE,)

    def inputs(g):
        interval = g.choice('interval', ['P5', 'm3', 'octave', 'X9', ''])
        direction = g.choice('direction', ['up', 'down', 'sideways', 'UP'])
        return {'self': mk_small_document(g), 'interval': interval, 'direction': direction}

    def raises(interval, direction):
        return {'ValueError': disj(not (interval in AVAILABLE_INTERVALS), not (direction in ('up', 'down')))}

    def cut_walk_starts_on_a_new_document(self, new_document, root):
        return conj(new_document is not self, root is new_document.tree.root)


@contract(DOC + 'to_transposed', props=['C15'], name='to_transposed_tail')
class to_transposed_tail:
    """After the walk (tail contract): the document returned is the one the walk worked on."""
    tail = 'while not queue.empty()'

    def inputs(g):
        doc = mk_small_document(g)
        return {'self': mk_small_document(g), 'interval': 'P5', 'direction': 'up', 'new_document': doc, 'root': doc.tree.root, 'queue': Fifo(None, []),
                '_walked': doc}

    modifies = ()

    def post_returns_the_walked_document(result, walked):
        return result is walked
