"""C12 -- malformed tokens are isolated, reported once and preserved (DESIGN 4.12): the per-token importer under contract.

The ANTLR recognizer is an assumed contract (A-antlr): parser.start() reports k >= 0 syntax errors to the registered listener or
bails out; the tree walk may raise inside a listener callback and leaves the token on the listener.  Under that assumption the
outcome of import_token must be a function of the cell alone: whatever errors earlier cells left on the importer (arbitrary
history = an arbitrary initial error list) must not influence it."""
from pyvc.contract import contract
from pyvc.ghost import (ite, conj, disj, implies, iff, opaque, ghost_events, ghost_set, ghost_get, havoc_bool, havoc_int, havoc_str,
                        havoc_enum, symbolic_run)
from kernpy.core.kern_spine_importer import KernSpineImporter
from kernpy.core.error_listener import ErrorListener
from kernpy.core.tokens import TokenCategory, SimpleToken, BarToken, ErrorToken

A_ANTLR = ('A-antlr: kernSpineParser.start() either bails out (exception) or returns a tree after reporting k >= 0 syntax errors to the '
           'registered error listener; ParseTreeWalker.walk may raise inside a listener callback, otherwise it leaves the token on the '
           'listener; CommonTokenStream.LA(1) tells whether unread text remains')
EOF_CONST = ('extconst', 'antlr4.Token.EOF')


@contract('kernSpineParser.start', props=['C12'], name='antlr_parser_start', assumed=A_ANTLR)
class antlr_parser_start:
    def requires():
        return True

    def model(self):
        bails = havoc_bool('K.bails')
        ghost_set('K.bails', bails)
        n = havoc_int('K.errs')
        ghost_set('K.errs', n)
        # the listener registered on this parser receives the syntax errors of THIS parse
        regs = [e for e in ghost_events() if e[0] == 'kernSpineParser' and e[1] == 'addErrorListener']
        if bails:
            raise Exception('ParseCancellationException')
        if n > 0:
            regs[-1][2][0].errors.append(opaque('ParseError'))
        return opaque('parse tree')


@contract('ParseTreeWalker.walk', props=['C12'], name='antlr_walk', assumed=A_ANTLR)
class antlr_walk:
    def model(args):
        listener = args[0]
        fails = havoc_bool('K.walk_raises')
        ghost_set('K.walk_raises', fails)
        if fails:
            raise Exception('listener callback raised')
        is_bar = havoc_bool('K.is_bar')
        ghost_set('K.is_bar', is_bar)
        if is_bar:
            tok = BarToken.__new__(BarToken)
        else:
            tok = SimpleToken.__new__(SimpleToken)
        tok.encoding = havoc_str('K.encoding')
        tok.category = havoc_enum('K.category', TokenCategory)
        tok.hidden = False
        listener.token = tok
        ghost_set('K.token', tok)
        return None


@contract('CommonTokenStream.LA', props=['C12'], name='antlr_la', assumed=A_ANTLR)
class antlr_la:
    def model(args):
        r = opaque('next token type')
        ghost_set('K.la', r)
        return r


def mk_used_importer(g):
    """a KernSpineImporter that has already imported an arbitrary sequence of cells: its listener holds an arbitrary error list"""
    if g.symbolic:
        stale = g.mlist('stale', lambda e: e.new(SimpleToken, {'encoding': e.str_sym('msg')}, None))
        listener = g.new(ErrorListener, {'errors': stale, 'verbose': False}, None)
        return g.new(KernSpineImporter, {'import_listener': None, 'error_listener': listener}, None)
    imp = KernSpineImporter()
    n = g.int('stale.len', 0, 3)
    imp.error_listener.errors = ['stale error %d' % k for k in range(n)]
    return imp


def cell_is_bad(encoding):
    """the ghost outcome of THIS cell: natively, what a fresh importer does with it"""
    if symbolic_run():
        la = ghost_get('K.la', None)
        trailing = False if la is None else conj(la != EOF_CONST, ghost_get('K.is_bar', False) == False)
        errs = ghost_get('K.errs', None)
        return disj(ghost_get('K.bails', False), False if errs is None else errs > 0, ghost_get('K.walk_raises', False), trailing)
    try:
        KernSpineImporter().import_token(encoding)
    except Exception:
        return True
    return False


@contract('kernpy.core.kern_spine_importer.KernSpineImporter.import_token', props=['C12'], name='kern_import_token_history', use_at_calls=False)
class kern_import_token_history:
    """The outcome for a cell never depends on which cells were parsed before it: for an ARBITRARY error history on the importer the
    call raises iff this cell is malformed (syntax errors of this parse, bail-out, a raising listener callback, unread text after a
    non-barline token) and otherwise returns the token the walk produced."""
    assumes = (A_ANTLR,)

    def inputs(g):
        return {'self': mk_used_importer(g), 'encoding': g.str_sym('cell', ['4c', '4zz', '4rx', '=1', '*xywh-1:10,20,30', '4cR', '*clefG2', '.'])}

    def requires(encoding):
        return len(encoding) > 0

    def modifies_objs(self):
        return [self.error_listener, self.error_listener.errors]

    def post_token_of_this_cell(result):
        if symbolic_run():
            return result is ghost_get('K.token')
        return True

    def raises(encoding):
        return {'Exception': cell_is_bad(encoding)}


# ------------------------------------------------------------------------------------------------ the error list is what the caller sees
from contracts.shapes import mk_importer, mk_simple_like


@contract('kernpy.core.importer.Importer.has_errors', props=['C12'])
class importer_has_errors:
    """the importer says it has errors iff its error list is not empty (the list the cell step of run appends to, one entry per malformed
    cell); asking changes nothing"""
    def inputs(g):
        imp = mk_importer(g)
        imp.errors = g.mlist('errors', lambda e: mk_simple_like(e, 'ErrorToken', 'err'))
        return {'self': imp}

    modifies = ()

    def post_iff_some_error(result, self):
        return result == (len(self.errors) > 0)
