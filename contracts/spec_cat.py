"""Specification vocabulary for the category algebra (DESIGN 3): everything is derived from DOC_TREE (the README)."""
from pyvc.ghost import ite, conj, disj, implies, iff, forall, exists, members
from contracts.doc_tree import DOC_TREE, DOC_TREE_TEXT
from kernpy.core.tokens import TokenCategory


def names_in(tree):
    out = []
    for k, sub in tree.items():
        out.append(k)
        out.extend(names_in(sub))
    return out


def build_desc(tree, acc):
    for k, sub in tree.items():
        acc[k] = names_in(sub)
        build_desc(sub, acc)
    return acc


def build_kids(tree, acc):
    for k, sub in tree.items():
        acc[k] = list(sub.keys())
        build_kids(sub, acc)
    return acc


DESC_NAMES = build_desc(DOC_TREE, {})       # name -> names of all strict descendants
KIDS_NAMES = build_kids(DOC_TREE, {})       # name -> names of the direct children
DOC_NAMES = names_in(DOC_TREE)


def cats(names):
    return {TokenCategory[n] for n in names}


def desc(c):
    """strict descendants of the concrete category c in the documented tree"""
    return cats(DESC_NAMES[c.name])


def kids(c):
    return cats(KIDS_NAMES[c.name])


def leaves_below(c):
    return {TokenCategory[n] for n in DESC_NAMES[c.name] if len(KIDS_NAMES[n]) == 0}


def all_cats():
    return cats(DOC_NAMES)


def is_desc(p, c):
    """c is a strict descendant of p (either may be symbolic)"""
    return exists(members(TokenCategory), lambda m: conj(p == m, c in desc(m)))


def closure(S):
    """S with all descendants"""
    return {d for c in S for d in (desc(c) | {c})}


def sel(I, E):
    return closure(I) - closure(E)


def sub_name_of(tree):
    """names of every node inside the (code) sub-dictionary `tree`"""
    out = set(tree.keys())
    for k in tree.keys():
        out = out | desc(k)
    return out


def subdicts(tree):
    """the sub-dictionaries of a hierarchy literal: the root and one per category (the only values `tree` parameters take)"""
    out = [tree]
    for sub in tree.values():
        out.extend(subdicts(sub))
    return out


def to_names(tree):
    return {k.name: to_names(sub) for k, sub in tree.items()}


def subdict_for(tree, c):
    """the sub-dictionary stored under category c somewhere in `tree` (None if c does not occur)"""
    for k, sub in tree.items():
        if k == c:
            return sub
        r = subdict_for(sub, c)
        if r is not None:
            return r
    return None
