"""C16 -- the Humdrum pitch spelling codec is lossless and side-effect free (DESIGN 4.16).
Run-length strings with symbolic counts: every octave, not only -1..9."""
from pyvc.contract import contract
from pyvc.ghost import ite, conj, disj, implies
from contracts.spec_pitch import LETTERS_UP, LETTERS_LO, name_LA, spell, parse_spell, is_spelling, canonical_name, letter_of, alt_of
from contracts.shapes import mk_pitch, mk_humdrum_importer, mk_humdrum_exporter
from kernpy.core.pitch_models import AgnosticPitch, HumdrumPitchImporter, HumdrumPitchExporter


def spelling_inputs(g, amax=3):
    L = g.choice('L', range(7))
    a = g.int('a', -amax, amax)
    o = g.int('o')
    return L, a, o


@contract('kernpy.core.pitch_models.HumdrumPitchImporter._parse_pitch', props=['C16'])
class parse_pitch:
    def inputs(g):
        L, a, o = spelling_inputs(g)
        return {'self': mk_humdrum_importer(g), 'encoding': spell(L, a, o), '_L': L, '_a': a, '_o': o}

    def post_name(result, L, a):
        # the raw name is lower-case letter + '+'/'-' (AgnosticPitch normalises the case)
        return result[0] == LETTERS_LO[L] + '+' * max(a, 0) + '-' * max(-a, 0)

    def post_octave(result, o):
        return result[1] == o


@contract('kernpy.core.pitch_models.HumdrumPitchImporter.import_pitch', props=['C16', 'C09'])
class import_pitch:
    """import_pitch(Spell(L, a, o)) is the pitch (Name(L, a), o) for every letter, |a| <= 3 and every octave."""
    def inputs(g):
        L, a, o = spelling_inputs(g)
        return {'self': mk_humdrum_importer(g), 'encoding': spell(L, a, o)}

    def requires(encoding):
        return is_spelling(encoding, 3)

    # the importer may keep private state (it caches the last parse on itself); what such state may leak into later calls is
    # decided by the two-call lemma import_twice below, not by framing the worker object
    modifies = ('self.**',)

    def post_name(result, encoding):
        L, a, o = parse_spell(encoding)
        return result.name == name_LA(L, a)

    def post_octave(result, encoding):
        return result.octave == parse_spell(encoding)[2]

    def model(self, encoding):
        L, a, o = parse_spell(encoding)
        return mk_pitch_fresh(name_LA(L, a), o)


def mk_pitch_fresh(name, octave):
    p = AgnosticPitch.__new__(AgnosticPitch)
    p._AgnosticPitch__name = name
    p._AgnosticPitch__octave = octave
    return p


@contract('kernpy.core.pitch_models.HumdrumPitchExporter.export_pitch', props=['C16', 'C09'])
class export_pitch:
    """export_pitch(p) == Spell(letter, alteration, octave) and p is not modified (so a second export agrees)."""
    def inputs(g):
        L, a, o = spelling_inputs(g)
        return {'self': mk_humdrum_exporter(g), 'pitch': mk_pitch(g, name_LA(L, a), o)}

    def requires(pitch):
        return canonical_name(pitch.name, 3)

    modifies = ()

    def post_spelling(result, old):
        p = old['pitch']
        return result == spell(letter_of(p), alt_of(p), p.octave)

    def model(self, pitch):
        return spell(letter_of(pitch), alt_of(pitch), pitch.octave)


# ---- lemmas: the two round trips and the double export, on the real code ---------------------------------------
@contract(None, props=['C16'])
class export_after_import:
    """export(import(s)) == s for every spelling s."""
    def inputs(g):
        L, a, o = spelling_inputs(g)
        return {'s': spell(L, a, o)}

    def post_identity(s):
        p = HumdrumPitchImporter().import_pitch(s)
        return HumdrumPitchExporter().export_pitch(p) == s


@contract(None, props=['C16'])
class import_after_export:
    """import(export(p)) == p for every pitch p."""
    def inputs(g):
        L, a, o = spelling_inputs(g)
        return {'p': mk_pitch(g, name_LA(L, a), o), '_L': L, '_a': a, '_o': o}

    def post_identity(p, L, a, o):
        q = HumdrumPitchImporter().import_pitch(HumdrumPitchExporter().export_pitch(p))
        return conj(q.name == name_LA(L, a), q.octave == o)


@contract(None, props=['C16'])
class export_twice:
    """two exports of the same pitch object give the same spelling (needs the frame clause of export_pitch)."""
    def inputs(g):
        L, a, o = spelling_inputs(g)
        return {'p': mk_pitch(g, name_LA(L, a), o)}

    def post_same(p):
        e = HumdrumPitchExporter()
        first = e.export_pitch(p)
        second = e.export_pitch(p)
        return first == second


@contract(None, props=['C16', 'C09'])
class import_twice:
    """history lemma: one importer object used for two spellings in a row -- the second pitch is what a new importer returns, the
    two results are different objects, and the first result still spells the first input afterwards (nothing a later import does
    reaches a pitch handed out earlier)."""
    inline = ('kernpy.core.pitch_models.HumdrumPitchImporter.import_pitch',)

    def inputs(g):
        L1, a1, o1 = g.choice('L1', range(7)), g.int('a1', -3, 3), g.int('o1')
        L2, a2, o2 = g.choice('L2', range(7)), g.int('a2', -3, 3), g.int('o2')
        return {'imp': mk_humdrum_importer(g), 's1': spell(L1, a1, o1), 's2': spell(L2, a2, o2),
                '_n1': name_LA(L1, a1), '_o1': o1, '_n2': name_LA(L2, a2), '_o2': o2}

    def post_earlier_result_untouched(imp, s1, s2, n1, o1, n2, o2):
        p1 = imp.import_pitch(s1)
        p2 = imp.import_pitch(s2)
        return conj(p1 is not p2, p1.name == n1, p1.octave == o1, p2.name == n2, p2.octave == o2)
