"""C17 -- token queries agree with the tree and with each other (DESIGN 4.17): visitors and derived queries under contract.
The traversal order on whole documents is covered by the bounded stand-in token_queries_agree (and the stack invariant lemma)."""
from pyvc.contract import contract
from pyvc.ghost import ite, conj, disj, implies, iff, members
from contracts.shapes import mk_simple_like, mk_tree_node, mk_token_list
from kernpy.core.document import TokensTraversal, MetacommentsTraversal, Document
from kernpy.core.tokens import TokenCategory

DOC = 'kernpy.core.document.'


@contract(DOC + 'TokensTraversal.__init__', props=['C17'])
class tokens_traversal_init:
    def inputs(g):
        f = g.choice('filter', ['none', 'set'])
        return {'self': g.new(TokensTraversal, {}, None), 'non_repeated': g.bool('unique'),
                'filter_by_categories': None if f == 'none' else g.enum_set('cats', TokenCategory)}

    modifies = ('self',)

    def post_state(self, non_repeated, filter_by_categories):
        return conj(len(self.tokens) == 0, len(self.seen_encodings) == 0, self.non_repeated == non_repeated,
                    set(self.filter_by_categories) == (set(members(TokenCategory)) if filter_by_categories is None else filter_by_categories))


@contract(DOC + 'TokensTraversal.visit', props=['C17'])
class tokens_traversal_visit:
    """the node's token is appended iff it exists, its category is in the filter and (when unique tokens are asked for) its
    encoding was not seen before; then the encoding is remembered; nothing else changes"""
    def inputs(g):
        has_token = g.choice('has_token', [True, False])
        tok = mk_simple_like(g, 'SimpleToken', 'tok') if has_token else None
        trav = g.new(TokensTraversal, {'tokens': mk_token_list(g, 'tokens'), 'seen_encodings': g.mlist('seen', lambda e: e.str_sym('enc')),
                                        'non_repeated': g.bool('unique'), 'filter_by_categories': g.enum_set('cats', TokenCategory)}, None)
        return {'self': trav, 'node': mk_tree_node(g, 'n', tok), '_tokens_before': trav.tokens.copy(), '_seen_before': trav.seen_encodings.copy()}

    def modifies_objs(self):
        return [self.tokens, self.seen_encodings]

    def post_collects(self, node, tokens_before, seen_before):
        tok = node.token
        if tok is None:
            return conj(self.tokens == tokens_before, self.seen_encodings == seen_before)
        take = conj(tok.category in self.filter_by_categories, disj(self.non_repeated == False, tok.encoding not in seen_before))
        if take:
            if self.non_repeated:
                return conj(self.tokens[-1] is tok, self.tokens[:-1] == tokens_before,
                            self.seen_encodings[-1] == tok.encoding, self.seen_encodings[:-1] == seen_before)
            return conj(self.tokens[-1] is tok, self.tokens[:-1] == tokens_before, self.seen_encodings == seen_before)
        return conj(self.tokens == tokens_before, self.seen_encodings == seen_before)


@contract(DOC + 'MetacommentsTraversal.visit', props=['C17'])
class metacomments_traversal_visit:
    def inputs(g):
        kind = g.choice('token', ['MetacommentToken', 'SimpleToken', 'FieldCommentToken', 'none'])
        tok = None if kind == 'none' else mk_simple_like(g, kind, 'tok')
        trav = g.new(MetacommentsTraversal, {'metacomments': mk_token_list(g, 'metas')}, None)
        return {'self': trav, 'node': mk_tree_node(g, 'n', tok), '_before': trav.metacomments.copy()}

    def modifies_objs(self):
        return [self.metacomments]

    def post_collects_global_comments(self, node, before):
        if node.token is not None and type(node.token).__name__ == 'MetacommentToken':
            return conj(self.metacomments[-1] is node.token, self.metacomments[:-1] == before)
        return self.metacomments == before


@contract(DOC + 'Document.tokens_to_encodings', props=['C17'])
class tokens_to_encodings:
    def inputs(g):
        return {'cls': Document, 'tokens': g.seq('toks', lambda e: e.new(type_simple(), {'encoding': e.str_sym('encoding'), 'category': e.enum('category', TokenCategory),
                                                                                   'hidden': False}, None))}

    modifies = ()

    def post_encodings_in_order(result, tokens):
        return result == [t.encoding for t in tokens]


def type_simple():
    from kernpy.core.tokens import SimpleToken
    return SimpleToken


# ------------------------------------------------------------------------------------------------ the stack loop of Node.dfs_iterative
A_DFS = ('A-dfs: a loop that pops the top of a stack that starts with the root, visits it and pushes its children in reverse order '
         'visits the nodes of a tree in preorder (children left to right)')


class VisitRecorder:
    """a traversal object that records the nodes it is shown, in order"""
    def __init__(self, seen):
        self.seen = seen

    def visit(self, node):
        self.seen.append(node)


@contract('kernpy.core.document.Node.dfs_iterative', props=['C17'], name='dfs_iterative_step')
class dfs_iterative_step:
    """One iteration of `while stack` from an arbitrary stack: the node on top is taken off and shown to the traversal object exactly
    once, before any other node; its children are pushed in reverse order (so the leftmost child is on top next); the rest of the
    stack is untouched."""
    step = 'while stack'
    assumes = (A_DFS,)

    def inputs(g):
        from kernpy.core.document import Node
        kids = g.mlist('top.children', lambda e: e.new(Node, {'id': e.int('id')}, None))
        top = g.new(Node, {'id': g.int('top.id', 1), 'token': None, 'parent': None, 'children': kids, 'stage': 0, 'header_node': None,
                           'last_signature_nodes': None, 'last_spine_operator_node': None}, None)
        if not hasattr(top, 'fields'):
            top.id, top.token, top.parent, top.children, top.stage, top.header_node = 1, None, None, kids, 0, None
        below = g.mlist('stack.below', lambda e: e.new(Node, {'id': e.int('id')}, None))
        stack = below.copy()
        stack.append(top)
        seen = g.mlist('seen', lambda e: e.new(Node, {'id': e.int('id')}, None))
        return {'self': None, 'tree_traversal': VisitRecorder(seen), 'stack': stack, '_top': top, '_below': below, '_seen_before': seen.copy()}

    def modifies_objs(stack, tree_traversal):
        return [stack, tree_traversal.seen]

    def post_top_visited_once(tree_traversal, top, seen_before):
        return tree_traversal.seen == seen_before + [top]

    def post_children_pushed_reversed(stack, top, below):
        return stack == below + list(reversed(top.children))

    def post_loop_goes_on(flow):
        return flow == 'next'


@contract('kernpy.core.document.Node.dfs_iterative', props=['C17'], name='dfs_iterative_head', use_at_calls=False)
class dfs_iterative_head:
    """At the head of `while stack`: the stack holds exactly the node the walk was started on, and the traversal object has not been
    shown anything yet (with dfs_iterative_step: the first node shown is that node; A-dfs for the rest).  There is no statement after
    the loop."""
    cut = 'while stack'
    assumes = (A_DFS,)

    def inputs(g):
        from kernpy.core.document import Node
        kids = g.mlist('start.children', lambda e: e.new(Node, {'id': e.int('id')}, None))
        start = g.new(Node, {'id': g.int('start.id', 0), 'token': None, 'parent': None, 'children': kids, 'stage': 0, 'header_node': None,
                             'last_signature_nodes': None, 'last_spine_operator_node': None}, None)
        if not hasattr(start, 'fields'):
            start.id, start.token, start.parent, start.children, start.stage, start.header_node = 0, None, None, kids, 0, None
        seen = g.mlist('seen', lambda e: e.new(Node, {'id': e.int('id')}, None))
        return {'self': start, 'tree_traversal': VisitRecorder(seen), '_start': start, '_seen_before': seen.copy()}

    def cut_stack_is_the_start_node(stack, start):
        return conj(len(stack) == 1, stack[0] is start)

    def cut_nothing_shown_yet(tree_traversal, seen_before):
        return tree_traversal.seen == seen_before


# ------------------------------------------------------------------------------------------------ the listing queries of Document
from pyvc.ghost import ghost_get, ghost_set, fresh_list, symbolic_run
from kernpy.core.document import Node, MultistageTree
from contracts.spec_cat import closure

A_PRE = ('A-preorder: MultistageTree.dfs_iterative shows the traversal object the root and then every other node of the tree, once each, '
         'in preorder (order: dfs_iterative_step + A-dfs; on whole documents: bounded contract token_queries_agree)')


@contract(DOC + 'MultistageTree.dfs_iterative', props=['C17'], name='dfs_summary', local=True, assumed=A_PRE)
class dfs_summary:
    def model(self, visit_method):
        for n in ghost_get('preorder'):
            visit_method.visit(n)
        return None


@contract(DOC + 'TokensTraversal.__init__', props=['C17'], name='tokens_traversal_init_summary', local=True,
          assumed='abstraction of TokensTraversal.__init__ (verified by contract tokens_traversal_init): empty collections, the two options stored')
class tokens_traversal_init_summary:
    def model(self, non_repeated, filter_by_categories):
        self.tokens = fresh_list()
        self.seen_encodings = fresh_list()
        self.non_repeated = non_repeated
        self.filter_by_categories = filter_by_categories
        return None


def mk_listed_document(g):
    """a document whose tree is known through its preorder only: the root (no token) followed by any number of nodes with a token"""
    def node(e):
        tok = e.new(type_simple(), {'encoding': e.str_sym('encoding'), 'category': e.enum('category', TokenCategory), 'hidden': False}, None)
        return e.new(Node, {'id': e.int('id', 1), 'token': tok}, None)
    rest = g.seq('preorder', node)
    root = g.new(Node, {'id': 0, 'token': None, 'children': []}, None)
    tree = g.new(MultistageTree, {'root': root, 'stages': []}, None)
    doc = g.new(Document, {'tree': tree, 'measure_start_tree_stages': [], 'page_bounding_boxes': {}, 'header_stage': None}, None)
    ghost_set('preorder', [root] + rest)
    return doc, rest


def native_listed_document(g):
    import kernpy as kp
    from contracts.gen_doc import gen_score
    doc, _ = kp.loads(gen_score(g.seeded_rng('doc.seed')).text())
    rest = []

    def walk(n):
        if n.token is not None:
            rest.append(n)
        for c in n.children:
            walk(c)
    walk(doc.tree.root)
    return doc, rest


@contract(DOC + 'Document.get_all_tokens', props=['C17'])
class get_all_tokens:
    """C17: the token listing is the preorder of the tree restricted to the selected categories (the given categories with their
    descendants; all of them when none is given): nothing reordered, nothing repeated or dropped."""
    uses = ('dfs_summary', 'tokens_traversal_init_summary')
    assumes = (A_PRE,)

    def inputs(g):
        doc, rest = mk_listed_document(g) if g.symbolic else native_listed_document(g)
        f = g.choice('filter', ['none', 'set'])
        return {'self': doc, 'filter_by_categories': None if f == 'none' else g.enum_set('cats', TokenCategory), '_rest': rest}

    modifies = ()

    def post_listing_is_filtered_preorder(result, filter_by_categories, rest):
        sel = set(members(TokenCategory)) if filter_by_categories is None else closure(filter_by_categories)
        want = [n.token for n in rest if n.token.category in sel]
        return conj(len(result) == len(want), [t.encoding for t in result] == [t.encoding for t in want],
                    [t.category for t in result] == [t.category for t in want])


@contract(DOC + 'Document.get_all_tokens_encodings', props=['C17'])
class get_all_tokens_encodings:
    """C17 (the queries agree with each other): the encoding listing is the text of every token of the token listing, in order"""
    uses = ('dfs_summary', 'tokens_traversal_init_summary')
    assumes = (A_PRE,)

    def inputs(g):
        doc, rest = mk_listed_document(g) if g.symbolic else native_listed_document(g)
        f = g.choice('filter', ['none', 'set'])
        return {'self': doc, 'filter_by_categories': None if f == 'none' else g.enum_set('cats', TokenCategory), '_rest': rest}

    modifies = ()

    def post_texts_of_the_token_listing(result, filter_by_categories, rest):
        sel = set(members(TokenCategory)) if filter_by_categories is None else closure(filter_by_categories)
        return result == [n.token.encoding for n in rest if n.token.category in sel]


# ------------------------------------------------------------------------------------------------ is_monophonic
@contract('kernpy.io.public.spine_types', props=['C17'], name='spine_types_summary', local=True,
          assumed='abstraction of kp.spine_types(document, headers=[**kern]): the list of the **kern spine headers of the document (C06)')
class spine_types_summary:
    def model(document, headers):
        return ghost_get('kern spine headers')


@contract('kernpy.io.public.is_monophonic', props=['C17'])
class is_monophonic:
    """C17: monophonic iff exactly one **kern spine, no chord token, and at least one note or rest token -- the counts being those of
    the token listing (CHORD, and NOTE_REST with its descendants); null tokens, errors and other core tokens are not notes"""
    uses = ('dfs_summary', 'tokens_traversal_init_summary', 'spine_types_summary')
    assumes = (A_PRE,)

    def inputs(g):
        if g.symbolic:
            doc, rest = mk_listed_document(g)
            kerns = g.seq('kern.headers', lambda e: '**kern')
            ghost_set('kern spine headers', kerns)
            return {'document': doc, '_rest': rest, '_kerns': len(kerns)}
        doc, rest = native_listed_document(g)
        import kernpy as kp
        return {'document': doc, '_rest': rest, '_kerns': len(kp.spine_types(doc, headers=['**kern']))}

    modifies = ()

    def post_definition(result, rest, kerns):
        chords = len([n for n in rest if n.token.category in closure([TokenCategory.CHORD])])
        notes = len([n for n in rest if n.token.category in closure([TokenCategory.NOTE_REST])])
        return iff(result, conj(kerns == 1, chords == 0, notes > 0))


# ------------------------------------------------------------------------------------------------ get_metacomments
from kernpy.core.tokens import MetacommentToken, SimpleToken, FieldCommentToken


@contract(DOC + 'MetacommentsTraversal.__init__', props=['C17'], name='metacomments_traversal_init_summary', local=True,
          assumed='abstraction of MetacommentsTraversal.__init__: an empty collection')
class metacomments_traversal_init_summary:
    def model(self):
        self.metacomments = fresh_list()
        return None


def mk_mixed_document(g):
    """a document known through its preorder: the root, then any number of nodes whose token is a global comment, a field comment or
    another token (which: unknown per node)"""
    def node(e):
        tok = e.new_any('token', [MetacommentToken, FieldCommentToken, SimpleToken],
                        {'encoding': e.str_sym('encoding'), 'category': e.enum('category', TokenCategory), 'hidden': False})
        return e.new(Node, {'id': e.int('id', 1), 'token': tok}, None)
    rest = g.seq('preorder', node)
    root = g.new(Node, {'id': 0, 'token': None, 'children': []}, None)
    tree = g.new(MultistageTree, {'root': root, 'stages': []}, None)
    doc = g.new(Document, {'tree': tree, 'measure_start_tree_stages': [], 'page_bounding_boxes': {}, 'header_stage': None}, None)
    ghost_set('preorder', [root] + rest)
    return doc, rest


@contract(DOC + 'Document.get_metacomments', props=['C17'])
class get_metacomments:
    """C17: the comment listing is the preorder of the tree restricted to the global-comment tokens (and, with a key, to those that
    start with '!!!' + key), as texts, in order; with clear=True the '!!!key: ' prefix text is removed from each"""
    uses = ('dfs_summary', 'metacomments_traversal_init_summary')
    assumes = (A_PRE,)

    def inputs(g):
        doc, rest = mk_mixed_document(g) if g.symbolic else native_listed_document(g)
        key = g.choice('key', [None, 'COM', 'OTL'])
        return {'self': doc, 'KeyComment': key, 'clear': g.bool('clear'), '_rest': rest}

    modifies = ()

    def post_listing_is_filtered_preorder(result, KeyComment, clear, rest):
        if KeyComment is None:
            # (clear without a key replaces the text '!!!None: ', which no comment of the corpus contains: the texts are unchanged)
            if clear:
                return True
            return result == [n.token.encoding for n in rest if isinstance(n.token, MetacommentToken)]
        want = [(n.token.encoding.replace('!!!' + KeyComment + ': ', '') if clear else n.token.encoding) for n in rest
                if isinstance(n.token, MetacommentToken) and n.token.encoding.startswith('!!!' + KeyComment)]
        return result == want


# ------------------------------------------------------------------------------------------------ header queries
from kernpy.core.tokens import HeaderToken


def mk_headed_document(g):
    def node(e):
        tok = e.new_any('token', [HeaderToken, SimpleToken, MetacommentToken],
                        {'encoding': e.str_sym('encoding'), 'category': e.enum('category', TokenCategory), 'hidden': False, 'spine_id': e.int('spine_id', 0)})
        return e.new(Node, {'id': e.int('id', 1), 'token': tok}, None)
    rest = g.seq('preorder', node)
    root = g.new(Node, {'id': 0, 'token': None, 'children': []}, None)
    tree = g.new(MultistageTree, {'root': root, 'stages': []}, None)
    doc = g.new(Document, {'tree': tree, 'measure_start_tree_stages': [], 'page_bounding_boxes': {}, 'header_stage': None}, None)
    ghost_set('preorder', [root] + rest)
    return doc, rest


@contract(DOC + 'Document.get_header_nodes', props=['C17', 'C06'])
class get_header_nodes:
    """the header listing is the token listing restricted to the spine headers, in the order of the listing (left to right)"""
    uses = ('dfs_summary', 'tokens_traversal_init_summary')
    assumes = (A_PRE,)

    def inputs(g):
        doc, rest = mk_headed_document(g) if g.symbolic else native_listed_document(g)
        return {'self': doc, '_rest': rest}

    modifies = ()

    def post_headers_in_listing_order(result, rest):
        want = [n.token for n in rest if isinstance(n.token, HeaderToken)]
        return conj(len(result) == len(want), [t.encoding for t in result] == [t.encoding for t in want],
                    [t.spine_id for t in result] == [t.spine_id for t in want])


@contract(DOC + 'Document.get_spine_ids', props=['C17', 'C06'])
class get_spine_ids:
    """the spine ids are those of the header listing, in its order"""
    uses = ('dfs_summary', 'tokens_traversal_init_summary')
    assumes = (A_PRE,)

    def inputs(g):
        doc, rest = mk_headed_document(g) if g.symbolic else native_listed_document(g)
        return {'self': doc, '_rest': rest}

    modifies = ()

    def post_ids_of_the_headers(result, rest):
        return result == [n.token.spine_id for n in rest if isinstance(n.token, HeaderToken)]


# ------------------------------------------------------------------------------------------------ the unique listing, as texts
A_UNIQUE = ('Document.get_unique_tokens(filter) is a function of the document and the filter (what it lists: bounded contract '
            'token_queries_agree; first occurrences depend on what was seen before, outside the per-element rules)')


@contract(DOC + 'Document.get_unique_tokens', props=['C17'], name='get_unique_tokens_summary', local=True, assumed=A_UNIQUE)
class get_unique_tokens_summary:
    def model(self, filter_by_categories):
        ghost_set('unique.calls', ghost_get('unique.calls', 0) + 1)
        ghost_set('unique.filter', filter_by_categories)
        return ghost_get('unique.answer')


@contract(DOC + 'Document.get_unique_token_encodings', props=['C17'])
class get_unique_token_encodings:
    """C17 (the queries agree with each other): the unique listing of texts is the text of every token of the unique token listing for
    the same filter, in order -- one query, nothing dropped, nothing added."""
    uses = ('get_unique_tokens_summary',)
    assumes = (A_UNIQUE,)

    def inputs(g):
        f = g.choice('filter', ['none', 'set'])
        cats = None if f == 'none' else g.enum_set('cats', TokenCategory)
        if g.symbolic:
            doc, rest = mk_listed_document(g)
            answer = g.seq('unique', lambda e: e.new(SimpleToken, {'encoding': e.str_sym('encoding'), 'category': e.enum('category', TokenCategory), 'hidden': False}, None))
            ghost_set('unique.answer', answer)
        else:
            doc, rest = native_listed_document(g)
            answer = None
        return {'self': doc, 'filter_by_categories': cats, '_answer': answer}

    modifies = ()

    def post_texts_of_the_unique_tokens(result, self, filter_by_categories, answer):
        if not symbolic_run():
            return result == [t.encoding for t in self.get_unique_tokens(filter_by_categories)]
        return conj(ghost_get('unique.calls', 0) == 1, ghost_get('unique.filter') is filter_by_categories, result == [t.encoding for t in answer])
