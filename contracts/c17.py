"""C17 -- token queries agree with the tree and with each other (DESIGN 4.17): visitors and derived queries under contract.
The traversal order on whole documents is covered by the bounded stand-in token_queries_agree (and the stack invariant lemma)."""
from pyvc.contract import contract
from pyvc.ghost import ite, conj, disj, implies, iff, members
from contracts.shapes import mk_simple_like, mk_tree_node, mk_token_list
from kernpy.core.document import TokensTraversal, MetacommentsTraversal, Document
from kernpy.core.tokens import TokenCategory

DOC = 'kernpy.core.document.'


@contract(DOC + 'TokensTraversal.__init__', props=['C17'])
class tokens_traversal_init:
    def inputs(g):
        f = g.choice('filter', ['none', 'set'])
        return {'self': g.new(TokensTraversal, {}, None), 'non_repeated': g.bool('unique'),
                'filter_by_categories': None if f == 'none' else g.enum_set('cats', TokenCategory)}

    modifies = ('self',)

    def post_state(self, non_repeated, filter_by_categories):
        return conj(len(self.tokens) == 0, len(self.seen_encodings) == 0, self.non_repeated == non_repeated,
                    set(self.filter_by_categories) == (set(members(TokenCategory)) if filter_by_categories is None else filter_by_categories))


@contract(DOC + 'TokensTraversal.visit', props=['C17'])
class tokens_traversal_visit:
    """the node's token is appended iff it exists, its category is in the filter and (when unique tokens are asked for) its
    encoding was not seen before; then the encoding is remembered; nothing else changes"""
    def inputs(g):
        has_token = g.choice('has_token', [True, False])
        tok = mk_simple_like(g, 'SimpleToken', 'tok') if has_token else None
        trav = g.new(TokensTraversal, {'tokens': mk_token_list(g, 'tokens'), 'seen_encodings': g.mlist('seen', lambda e: e.str_sym('enc')),
                                        'non_repeated': g.bool('unique'), 'filter_by_categories': g.enum_set('cats', TokenCategory)}, None)
        return {'self': trav, 'node': mk_tree_node(g, 'n', tok), '_tokens_before': trav.tokens.copy(), '_seen_before': trav.seen_encodings.copy()}

    def modifies_objs(self):
        return [self.tokens, self.seen_encodings]

    def post_collects(self, node, tokens_before, seen_before):
        tok = node.token
        if tok is None:
            return conj(self.tokens == tokens_before, self.seen_encodings == seen_before)
        take = conj(tok.category in self.filter_by_categories, disj(self.non_repeated == False, tok.encoding not in seen_before))
        if take:
            if self.non_repeated:
                return conj(self.tokens[-1] is tok, self.tokens[:-1] == tokens_before,
                            self.seen_encodings[-1] == tok.encoding, self.seen_encodings[:-1] == seen_before)
            return conj(self.tokens[-1] is tok, self.tokens[:-1] == tokens_before, self.seen_encodings == seen_before)
        return conj(self.tokens == tokens_before, self.seen_encodings == seen_before)


@contract(DOC + 'MetacommentsTraversal.visit', props=['C17'])
class metacomments_traversal_visit:
    def inputs(g):
        kind = g.choice('token', ['MetacommentToken', 'SimpleToken', 'FieldCommentToken', 'none'])
        tok = None if kind == 'none' else mk_simple_like(g, kind, 'tok')
        trav = g.new(MetacommentsTraversal, {'metacomments': mk_token_list(g, 'metas')}, None)
        return {'self': trav, 'node': mk_tree_node(g, 'n', tok), '_before': trav.metacomments.copy()}

    def modifies_objs(self):
        return [self.metacomments]

    def post_collects_global_comments(self, node, before):
        if node.token is not None and type(node.token).__name__ == 'MetacommentToken':
            return conj(self.metacomments[-1] is node.token, self.metacomments[:-1] == before)
        return self.metacomments == before


@contract(DOC + 'Document.tokens_to_encodings', props=['C17'])
class tokens_to_encodings:
    def inputs(g):
        return {'cls': Document, 'tokens': g.seq('toks', lambda e: e.new(type_simple(), {'encoding': e.str_sym('encoding'), 'category': e.enum('category', TokenCategory),
                                                                                   'hidden': False}, None))}

    modifies = ()

    def post_encodings_in_order(result, tokens):
        return result == [t.encoding for t in tokens]


def type_simple():
    from kernpy.core.tokens import SimpleToken
    return SimpleToken
