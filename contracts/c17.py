"""C17 -- token queries agree with the tree and with each other (DESIGN 4.17): visitors and derived queries under contract.
The traversal order on whole documents is covered by the bounded stand-in token_queries_agree (and the stack invariant lemma)."""
from pyvc.contract import contract
from pyvc.ghost import ite, conj, disj, implies, iff, members
from contracts.shapes import mk_simple_like, mk_tree_node, mk_token_list
from kernpy.core.document import TokensTraversal, MetacommentsTraversal, Document
from kernpy.core.tokens import TokenCategory

DOC = 'kernpy.core.document.'


@contract(DOC + 'TokensTraversal.__init__', props=['C17'])
class tokens_traversal_init:
    def inputs(g):
        f = g.choice('filter', ['none', 'set'])
        return {'self': g.new(TokensTraversal, {}, None), 'non_repeated': g.bool('unique'),
                'filter_by_categories': None if f == 'none' else g.enum_set('cats', TokenCategory)}

    modifies = ('self',)

    def post_state(self, non_repeated, filter_by_categories):
        return conj(len(self.tokens) == 0, len(self.seen_encodings) == 0, self.non_repeated == non_repeated,
                    set(self.filter_by_categories) == (set(members(TokenCategory)) if filter_by_categories is None else filter_by_categories))


@contract(DOC + 'TokensTraversal.visit', props=['C17'])
class tokens_traversal_visit:
    """the node's token is appended iff it exists, its category is in the filter and (when unique tokens are asked for) its
    encoding was not seen before; then the encoding is remembered; nothing else changes"""
    def inputs(g):
        has_token = g.choice('has_token', [True, False])
        tok = mk_simple_like(g, 'SimpleToken', 'tok') if has_token else None
        trav = g.new(TokensTraversal, {'tokens': mk_token_list(g, 'tokens'), 'seen_encodings': g.mlist('seen', lambda e: e.str_sym('enc')),
                                        'non_repeated': g.bool('unique'), 'filter_by_categories': g.enum_set('cats', TokenCategory)}, None)
        return {'self': trav, 'node': mk_tree_node(g, 'n', tok), '_tokens_before': trav.tokens.copy(), '_seen_before': trav.seen_encodings.copy()}

    def modifies_objs(self):
        return [self.tokens, self.seen_encodings]

    def post_collects(self, node, tokens_before, seen_before):
        tok = node.token
        if tok is None:
            return conj(self.tokens == tokens_before, self.seen_encodings == seen_before)
        take = conj(tok.category in self.filter_by_categories, disj(self.non_repeated == False, tok.encoding not in seen_before))
        if take:
            if self.non_repeated:
                return conj(self.tokens[-1] is tok, self.tokens[:-1] == tokens_before,
                            self.seen_encodings[-1] == tok.encoding, self.seen_encodings[:-1] == seen_before)
            return conj(self.tokens[-1] is tok, self.tokens[:-1] == tokens_before, self.seen_encodings == seen_before)
        return conj(self.tokens == tokens_before, self.seen_encodings == seen_before)


@contract(DOC + 'MetacommentsTraversal.visit', props=['C17'])
class metacomments_traversal_visit:
    def inputs(g):
        kind = g.choice('token', ['MetacommentToken', 'SimpleToken', 'FieldCommentToken', 'none'])
        tok = None if kind == 'none' else mk_simple_like(g, kind, 'tok')
        trav = g.new(MetacommentsTraversal, {'metacomments': mk_token_list(g, 'metas')}, None)
        return {'self': trav, 'node': mk_tree_node(g, 'n', tok), '_before': trav.metacomments.copy()}

    def modifies_objs(self):
        return [self.metacomments]

    def post_collects_global_comments(self, node, before):
        if node.token is not None and type(node.token).__name__ == 'MetacommentToken':
            return conj(self.metacomments[-1] is node.token, self.metacomments[:-1] == before)
        return self.metacomments == before


@contract(DOC + 'Document.tokens_to_encodings', props=['C17'])
class tokens_to_encodings:
    def inputs(g):
        return {'cls': Document, 'tokens': g.seq('toks', lambda e: e.new(type_simple(), {'encoding': e.str_sym('encoding'), 'category': e.enum('category', TokenCategory),
                                                                                   'hidden': False}, None))}

    modifies = ()

    def post_encodings_in_order(result, tokens):
        return result == [t.encoding for t in tokens]


def type_simple():
    from kernpy.core.tokens import SimpleToken
    return SimpleToken


# ------------------------------------------------------------------------------------------------ the stack loop of Node.dfs_iterative
A_DFS = ('A-dfs: a loop that pops the top of a stack that starts with the root, visits it and pushes its children in reverse order '
         'visits the nodes of a tree in preorder (children left to right)')


class VisitRecorder:
    """a traversal object that records the nodes it is shown, in order"""
    def __init__(self, seen):
        self.seen = seen

    def visit(self, node):
        self.seen.append(node)


@contract('kernpy.core.document.Node.dfs_iterative', props=['C17'], name='dfs_iterative_step')
class dfs_iterative_step:
    """One iteration of `while stack` from an arbitrary stack: the node on top is taken off and shown to the traversal object exactly
    once, before any other node; its children are pushed in reverse order (so the leftmost child is on top next); the rest of the
    stack is untouched."""
    step = 'while stack'
    assumes = (A_DFS,)

    def inputs(g):
        from kernpy.core.document import Node
        kids = g.mlist('top.children', lambda e: e.new(Node, {'id': e.int('id')}, None))
        top = g.new(Node, {'id': g.int('top.id', 1), 'token': None, 'parent': None, 'children': kids, 'stage': 0, 'header_node': None,
                           'last_signature_nodes': None, 'last_spine_operator_node': None}, None)
        if not hasattr(top, 'fields'):
            top.id, top.token, top.parent, top.children, top.stage, top.header_node = 1, None, None, kids, 0, None
        below = g.mlist('stack.below', lambda e: e.new(Node, {'id': e.int('id')}, None))
        stack = below.copy()
        stack.append(top)
        seen = g.mlist('seen', lambda e: e.new(Node, {'id': e.int('id')}, None))
        return {'self': None, 'tree_traversal': VisitRecorder(seen), 'stack': stack, '_top': top, '_below': below, '_seen_before': seen.copy()}

    def modifies_objs(stack, tree_traversal):
        return [stack, tree_traversal.seen]

    def post_top_visited_once(tree_traversal, top, seen_before):
        return tree_traversal.seen == seen_before + [top]

    def post_children_pushed_reversed(stack, top, below):
        return stack == below + list(reversed(top.children))

    def post_loop_goes_on(flow):
        return flow == 'next'
