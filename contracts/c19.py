"""C19 -- Generic.concat: incremental prefix import and index bookkeeping (DESIGN 4.19).

The imports themselves are summarised: the k-th call of `create` returns the k-th of a list of arbitrary documents (any measure
counts) and its argument is recorded.  Under contract: the texts handed to the importer are the growing prefixes (separator before
every fragment, the first included), one pair per fragment, the first pair starts at 0, each next pair starts one after the previous
'to', every 'to' is the measure count of the prefix imported at that step, and the returned document is the last import.  Domain:
1..5 fragments (the loop is unrolled: it builds a Python list of tuples from accumulators, which the loop rules of the engine do not
cover; any number of fragments is exercised by the bounded contract concat_indexes_address_fragments)."""
from pyvc.contract import contract
from pyvc.ghost import conj, disj, implies, ghost_get, ghost_set, symbolic_run
from contracts.shapes import mk_document_index
from kernpy.core.generic import Generic
from kernpy.core.document import Document

GEN = 'kernpy.core.generic.'
A_CREATE = ('A-create-for-concat: create(text) returns (document, errors); nothing but the returned document and its measure count is '
            'used by concat (what the import of a text is: C02, C07)')


@contract(GEN + 'create', props=['C19'], name='create_summary_for_concat', local=True, assumed=A_CREATE)
class create_summary_for_concat:
    def model(content):
        k = ghost_get('create.calls', 0)
        ghost_set('create.calls', k + 1)
        ghost_set('create.texts', ghost_get('create.texts', ()) + (content,))
        return (ghost_get('create.documents')[k], [])


def same_document(a, b):
    if symbolic_run():
        return a is b
    return list(a.measure_start_tree_stages) == list(b.measure_start_tree_stages) and [t.encoding for t in a.get_all_tokens()] == [t.encoding for t in b.get_all_tokens()]


def mk_counted_document(g, k):
    """a Document of which only the measure index is read: any number of measure starts"""
    mst = g.seq(f'doc{k}.mst', lambda e: e.int('stage', 0))
    d = g.new(Document, {'tree': None, 'measure_start_tree_stages': mst, 'page_bounding_boxes': {}, 'header_stage': None}, None)
    if not hasattr(d, 'fields'):
        d.tree, d.measure_start_tree_stages, d.page_bounding_boxes, d.header_stage = None, mst, {}, None
    return d


@contract(GEN + 'Generic.concat', props=['C19'])
class concat_bookkeeping:
    uses = ('create_summary_for_concat',)
    assumes = (A_CREATE, 'domain: 1..5 fragments (loop unrolled)')

    def inputs(g):
        n = g.choice('fragments', [1, 2, 3, 4, 5])
        contents = [g.str_sym(f'fragment{k}', ['**kern\n4c\n', '=1\n4d\n', '=2\n4e\n4f\n', '*-\n']) for k in range(n)]
        sep = g.choice('separator', [None, '\n', ''])
        if g.symbolic:
            docs = [mk_counted_document(g, k) for k in range(n)]
            ghost_set('create.documents', docs)
        else:
            # native runs (replays, stand-in): the k-th import is the real import of the k-th prefix
            docs, acc = [], ''
            for c in contents:
                acc = acc + ('\n' if sep is None else sep) + c
                try:
                    docs.append(Generic.create(acc)[0])
                except Exception:
                    g.assume(False)
                    docs.append(None)
        return {'cls': Generic, 'contents': contents, 'separator': sep, '_docs': docs}

    def post_prefixes_imported(contents, separator):
        sep = '\n' if separator is None else separator
        texts = ghost_get('create.texts', ())
        if len(texts) != len(contents):
            return False
        acc, ok = '', True
        for k in range(len(contents)):
            acc = acc + sep + contents[k]
            ok = conj(ok, texts[k] == acc)
        return ok

    def post_one_consecutive_pair_per_fragment(result, contents, docs):
        document, indexes = result
        if len(indexes) != len(contents):
            return False
        ok = conj(same_document(document, docs[-1]), indexes[0][0] == 0, indexes[-1][1] == len(docs[-1].measure_start_tree_stages))
        for k in range(len(contents)):
            ok = conj(ok, indexes[k][1] == len(docs[k].measure_start_tree_stages))
            if k > 0:
                ok = conj(ok, indexes[k][0] == indexes[k - 1][1] + 1)
        return ok

    def raises(contents, docs):
        # a prefix without any measure (a fragment list whose first fragment holds the header only) is refused by measures_count:
        # outside C19's domain (cuts at barline positions leave at least one measure in the first fragment), stated for completeness
        some_empty = False
        for d in docs:
            some_empty = disj(some_empty, len(d.measure_start_tree_stages) == 0)
        return {'ValueError': len(contents) == 0, 'Exception': some_empty}
