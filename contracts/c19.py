"""C19 -- Generic.concat: incremental prefix import and index bookkeeping (DESIGN 4.19).

The imports themselves are summarised: the k-th call of `create` returns the k-th of a list of arbitrary documents (any measure
counts) and its argument is recorded.  Under contract: the texts handed to the importer are the growing prefixes (separator before
every fragment, the first included), one pair per fragment, the first pair starts at 0, each next pair starts one after the previous
'to', every 'to' is the measure count of the prefix imported at that step, and the returned document is the last import.  Domain:
1..5 fragments (the loop is unrolled: it builds a Python list of tuples from accumulators, which the loop rules of the engine do not
cover; any number of fragments is exercised by the bounded contract concat_indexes_address_fragments)."""
from pyvc.contract import contract
from pyvc.ghost import conj, disj, implies, ghost_get, ghost_set, symbolic_run
from contracts.shapes import mk_document_index
from kernpy.core.generic import Generic
from kernpy.core.document import Document

GEN = 'kernpy.core.generic.'
A_CREATE = ('A-create-for-concat: create(text) returns (document, errors); nothing but the returned document and its measure count is '
            'used by concat (what the import of a text is: C02, C07)')


@contract(GEN + 'create', props=['C19'], name='create_summary_for_concat', local=True, assumed=A_CREATE)
class create_summary_for_concat:
    def model(content):
        k = ghost_get('create.calls', 0)
        ghost_set('create.calls', k + 1)
        ghost_set('create.texts', ghost_get('create.texts', ()) + (content,))
        return (ghost_get('create.documents')[k], [])


def same_document(a, b):
    if symbolic_run():
        return a is b
    return list(a.measure_start_tree_stages) == list(b.measure_start_tree_stages) and [t.encoding for t in a.get_all_tokens()] == [t.encoding for t in b.get_all_tokens()]


def mk_counted_document(g, k):
    """a Document of which only the measure index is read: any number of measure starts"""
    mst = g.seq(f'doc{k}.mst', lambda e: e.int('stage', 0))
    d = g.new(Document, {'tree': None, 'measure_start_tree_stages': mst, 'page_bounding_boxes': {}, 'header_stage': None}, None)
    if not hasattr(d, 'fields'):
        d.tree, d.measure_start_tree_stages, d.page_bounding_boxes, d.header_stage = None, mst, {}, None
    return d


@contract(GEN + 'Generic.concat', props=['C19'])
class concat_bookkeeping:
    uses = ('create_summary_for_concat',)
    assumes = (A_CREATE, 'domain: 1..5 fragments (loop unrolled)')

    def inputs(g):
        n = g.choice('fragments', [1, 2, 3, 4, 5])
        contents = [g.str_sym(f'fragment{k}', ['**kern\n4c\n', '=1\n4d\n', '=2\n4e\n4f\n', '*-\n']) for k in range(n)]
        sep = g.choice('separator', [None, '\n', ''])
        if g.symbolic:
            docs = [mk_counted_document(g, k) for k in range(n)]
            ghost_set('create.documents', docs)
        else:
            # native runs (replays, stand-in): the k-th import is the real import of the k-th prefix
            docs, acc = [], ''
            for c in contents:
                acc = acc + ('\n' if sep is None else sep) + c
                try:
                    docs.append(Generic.create(acc)[0])
                except Exception:
                    g.assume(False)
                    docs.append(None)
        return {'cls': Generic, 'contents': contents, 'separator': sep, '_docs': docs}

    def post_prefixes_imported(contents, separator):
        sep = '\n' if separator is None else separator
        texts = ghost_get('create.texts', ())
        if len(texts) != len(contents):
            return False
        acc, ok = '', True
        for k in range(len(contents)):
            acc = acc + sep + contents[k]
            ok = conj(ok, texts[k] == acc)
        return ok

    def post_one_consecutive_pair_per_fragment(result, contents, docs):
        document, indexes = result
        if len(indexes) != len(contents):
            return False
        ok = conj(same_document(document, docs[-1]), indexes[0][0] == 0, indexes[-1][1] == len(docs[-1].measure_start_tree_stages))
        for k in range(len(contents)):
            ok = conj(ok, indexes[k][1] == len(docs[k].measure_start_tree_stages))
            if k > 0:
                ok = conj(ok, indexes[k][0] == indexes[k - 1][1] + 1)
        return ok

    def raises(contents, docs):
        # a prefix without any measure (a fragment list whose first fragment holds the header only) is refused by measures_count:
        # outside C19's domain (cuts at barline positions leave at least one measure in the first fragment), stated for completeness
        some_empty = False
        for d in docs:
            some_empty = disj(some_empty, len(d.measure_start_tree_stages) == 0)
        return {'ValueError': len(contents) == 0, 'Exception': some_empty}


# ------------------------------------------------------------------------------------------------ any number of fragments: loop head and loop step
@contract(GEN + 'Generic.concat', props=['C19'], name='concat_loop_head', use_at_calls=False)
class concat_loop_head:
    """At the head of `for content in contents` (any number of fragments): nothing imported yet, the accumulated text is empty, the
    index list is empty, the first pair will start at 0, the separator is the given one ('\\n' when none is given); an empty
    fragment list never gets here (ValueError)."""
    cut = 'for content in contents'

    def inputs(g):
        contents = g.seq('contents', lambda e: e.str_sym('fragment', ['**kern\n4c\n', '=1\n4d\n']))
        sep = None if g.choice('separator.none', [True, False]) else g.str_sym('separator', ['\n', '', ' '])
        return {'cls': Generic, 'contents': contents, 'separator': sep, '_given': sep}

    def raises(contents):
        return {'ValueError': len(contents) == 0}

    def cut_nothing_accumulated(raw_kern, indexes, low_index, document):
        return conj(raw_kern == '', len(indexes) == 0, low_index == 0, document is None)

    def cut_separator(separator, given):
        return separator == ('\n' if given is None else given)

    def cut_no_import_yet():
        return ghost_get('create.calls', 0) == 0


@contract(GEN + 'Generic.concat', props=['C19'], name='concat_step')
class concat_step:
    """One iteration of `for content in contents` from an arbitrary state of the loop (any text accumulated so far, any pairs
    recorded so far, any running start index): exactly one import, of the accumulated text + separator + this fragment; exactly one
    pair is appended, (running start, measure count of the document just imported); the earlier pairs are untouched; the next
    start is that measure count + 1; the document kept is the one just imported.  With concat_loop_head (state at the first
    iteration) this gives, by induction over the fragments (meta-argument A-concat-induction): the k-th import is the k-th prefix,
    pair k = (to_{k-1} + 1, measures of prefix k), pair 0 starts at 0 -- for every number of fragments."""
    step = 'for content in contents'
    uses = ('create_summary_for_concat',)
    assumes = (A_CREATE, 'A-concat-induction: loop head + step give the whole-loop statement by induction over the fragments; the statements after the loop '
                         '(document is None test, return of document and pairs) are covered by concat_bookkeeping')

    def inputs(g):
        content = g.str_sym('content', ['**kern\n4c\n', '=1\n4d\n', '=2\n4e\n4f\n', '*-\n'])
        raw = g.str_sym('raw_kern', ['', '\n**kern\n4c\n=1\n4d\n'])
        sep = g.str_sym('separator', ['\n', ''])
        low = g.int('low_index')
        high = g.int('high_index')
        indexes = g.mlist('indexes', lambda e: (e.int('lo'), e.int('hi')))
        if g.symbolic:
            doc = mk_counted_document(g, 0)
            ghost_set('create.documents', [doc])
        else:
            try:
                doc = Generic.create(raw + sep + content)[0]
            except Exception:
                g.assume(False)
                doc = None
        return {'cls': Generic, 'contents': [content], 'content': content, 'separator': sep, 'raw_kern': raw, 'document': None,
                'indexes': indexes, 'low_index': low, 'high_index': high,
                '_raw_before': raw, '_low_before': low, '_indexes_before': indexes.copy(), '_doc': doc}

    def modifies_objs(indexes):
        return [indexes]

    def raises(doc):
        return {'Exception': len(doc.measure_start_tree_stages) == 0}

    def post_text_accumulated(raw_kern, raw_before, separator, content):
        return raw_kern == raw_before + separator + content

    def post_one_import_of_the_new_prefix(raw_before, separator, content):
        return ghost_get('create.texts', ()) == (raw_before + separator + content,)

    def post_one_pair_appended(indexes, indexes_before, low_before, doc):
        return indexes == indexes_before + [(low_before, len(doc.measure_start_tree_stages))]

    def post_next_start_and_document(low_index, high_index, document, doc):
        M = len(doc.measure_start_tree_stages)
        return conj(high_index == M, low_index == M + 1, same_document(document, doc))

    def post_loop_goes_on(flow):
        return flow == 'next'


@contract(GEN + 'Generic.concat', props=['C19'], name='concat_tail')
class concat_tail:
    """After the loop (tail contract: the statements that follow `for content in contents`, from an arbitrary state): the function
    returns exactly the document kept by the last iteration and the very list of pairs the loop filled -- nothing is dropped, added
    or reordered on the way out; only a state without any import (no fragment) is refused."""
    tail = 'for content in contents'

    def inputs(g):
        has_doc = g.choice('document', ['none', 'some'])
        doc = None if has_doc == 'none' else mk_counted_document(g, 0)
        indexes = g.mlist('indexes', lambda e: (e.int('lo'), e.int('hi')))
        return {'cls': Generic, 'contents': [], 'separator': '\n', 'raw_kern': g.str_sym('raw_kern', ['', '\n**kern\n']), 'document': doc,
                'indexes': indexes, 'low_index': g.int('low_index'), 'high_index': g.int('high_index'), '_doc': doc, '_pairs': indexes}

    modifies = ()

    def raises(doc):
        return {'Exception': doc is None}

    def post_returns_what_the_loop_left(result, doc, pairs):
        return conj(result[0] is doc, result[1] is pairs)
