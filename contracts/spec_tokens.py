"""Specification vocabulary shared by the token-level contracts."""
from pyvc.ghost import ite, conj, disj, implies, iff, forall, exists, members
from contracts.spec_cat import desc, closure, is_desc
from kernpy.core.tokens import TokenCategory

# cells covering every alternative of the kern grammar plus free text / garbage (bounded witness search and corpora)
CELL_CORPUS = ['=1', '=', '==', '=:|!', '.', '*', '*clefG2', '*clefF4', '*k[f#]', '*M4/4', '*met(c)', '*C:', '4c', '4.cc#', '2r',
               '4c 4e', '8ddL', '16ee-J', '!comment', '*staff1', '*xywh:1,2,3,4', '*I"Violin', '*^', '*-', '*v', 'Hello', 'f', 'pp',
               'C7', 'xyz', '4zz', 'ño', 'la-', '1', '3 4', '*part1', '*>A', '*tb8']

STRUCTURAL_PARENTS = [TokenCategory.STRUCTURAL, TokenCategory.SIGNATURES, TokenCategory.EMPTY, TokenCategory.IMAGE_ANNOTATIONS,
                      TokenCategory.BARLINES, TokenCategory.COMMENTS]


def shared_structure(cat):
    """cat (possibly symbolic) belongs to the structure every spine type shares with **kern: barlines, null tokens,
    signatures, structural / image-annotation interpretations, comments -- these categories or a descendant of them"""
    return exists(STRUCTURAL_PARENTS, lambda p: disj(cat == p, is_desc(p, cat)))


def same_token(a, b):
    return conj(type(a).__name__ == type(b).__name__, a.encoding == b.encoding, a.category == b.category)
