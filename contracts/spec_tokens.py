"""Specification vocabulary shared by the token-level contracts."""
from pyvc.ghost import ite, conj, disj, implies, iff, forall, exists, members
from contracts.spec_cat import desc, closure, is_desc
from kernpy.core.tokens import TokenCategory

# cells covering every alternative of the kern grammar plus free text / garbage (bounded witness search and corpora)
CELL_CORPUS = ['=1', '=', '==', '=:|!', '=-', '=1-', '=2||', '.', '*', '4c', '4.cc#', '2r', '4c 4e', '8ddL', '16ee-J', '!comment', '!', 'Hello', 'f', 'pp',
               'C7', 'xyz', '4zz', 'ño', 'la-', '1', '3 4', 'a@b', 'col·lec',
               # every tandem / structural literal of kern/kernSpineLexer.g4
               '*kcancel', '*part1', '*group1', '*accomp', '*solo', '*strophe', '*staff1', '*staff2', '*Trd1c2', '*ITrd1c2', '*clefG2', '*clefF4',
               '*clefGv2', '*k[f#]', '*k[]', '*k[b-e-]', '*met(c)', '*met(c|)', '*MM120', '*>A', '*>[A,B]', '*lh', '*rh', '*above', '*below', '*below:2',
               '*centered', '*ped', '*ped*', '*ela', '*Xped', '*tuplet', '*Xtuplet', '*cue', '*Xcue', '*tremolo', '*Xtremolo', '*tstart', '*tend',
               '*rscale:2', '*M4/4', '*M3/8', '*S/sic', '*S/ossia', '*S/fin', '*S-', '*tb8', '*xywh-1:1,2,3,4', '*8va', '*X8va', '*8ba', '*I"Violin',
               '*Ipiano', '*mI"Title', '*C:', '*a:', '*F#:', '*^', '*v', '*-', '*+', '*x']

STRUCTURAL_PARENTS = [TokenCategory.STRUCTURAL, TokenCategory.SIGNATURES, TokenCategory.EMPTY, TokenCategory.IMAGE_ANNOTATIONS,
                      TokenCategory.BARLINES, TokenCategory.COMMENTS]


def shared_structure(cat):
    """cat (possibly symbolic) belongs to the structure every spine type shares with **kern: barlines, null tokens,
    signatures, structural / image-annotation interpretations, comments -- these categories or a descendant of them"""
    return exists(STRUCTURAL_PARENTS, lambda p: disj(cat == p, is_desc(p, cat)))


def same_token(a, b):
    return conj(type(a).__name__ == type(b).__name__, a.encoding == b.encoding, a.category == b.category)


# ---- rendering of tokens (DESIGN 3: View / Render) -------------------------------------------------------------------------
TOKEN_SEP = '@'
DECO_SEP = '·'
D = TokenCategory.DURATION
P = TokenCategory.PITCH
A = TokenCategory.ALTERATION
R = TokenCategory.REST
DEC = TokenCategory.DECORATION
PD_CATS = [D, P, A, R]
PD_CORPUS = ['4', '.', '8', '16', 'q', 'c', 'cc', 'C', 'r', '#', '-', 'n', '2', '3%2']
DEC_CORPUS = ['L', 'J', '_', '[', ']', '(', ')', ';', "'", '^', '~', 'T', '/', '\\', 'k']


def group_rank(cat):
    """canonical order of the parts of a note (the order the kern grammar reads them in): duration marks, then the pitch
    letters or the rest sign, then the accidental; inside a group the source order is kept"""
    return ite(cat == D, 0, ite(cat == A, 2, 1))


def render_note(pd, dec, keep, conv):
    """The extended rendering of one note or rest.  keep: None or a predicate on categories; conv: None or the
    pitch-to-agnostic converter (str -> str)."""
    pd_sel = [s for s in pd if keep is None or keep(s.category)]
    dec_sel = [s for s in dec if keep is None or keep(s.category)]
    pd_canon = sorted(pd_sel, key=lambda s: group_rank(s.category))
    dec_canon = sorted(dec_sel, key=lambda s: s.encoding)
    pitch_part = [s for s in pd_canon if s.category == P]
    if conv is not None and pitch_part:
        # C10: only the pitch letters are converted; the accidental (with its display suffix) is carried over unchanged
        dur = [s.encoding for s in pd_canon if s.category == D]
        agn = conv(''.join(s.encoding for s in pitch_part)) + ''.join(s.encoding for s in pd_canon if s.category == A)
        if dur:
            body = TOKEN_SEP.join(dur) + TOKEN_SEP + agn
        else:
            body = agn
    else:
        body = TOKEN_SEP.join(s.encoding for s in pd_canon)
    d = DECO_SEP.join(s.encoding for s in dec_canon)
    if d:
        text = body + DECO_SEP + d
    else:
        text = body
    return text if len(text) > 0 else '*'


def space_join(parts):
    """texts joined by a single space (no separator before the first)"""
    out = ''
    for p in parts:
        if len(out) > 0:
            out += ' '
        out += p
    return out


def strip_separators(text):
    return text.replace(TOKEN_SEP, '').replace(DECO_SEP, '')


def render_compound(subs, keep):
    parts = [s.encoding for s in subs if keep is None or keep(s.category)]
    return TOKEN_SEP.join(parts) if len(parts) > 0 else '*'


def render_chord(notes, keep, conv):
    return space_join([render_note(n.pitch_duration_subtokens, n.decoration_subtokens, keep, conv) for n in notes])


def export_spec(token, keep, conv):
    """Token.export by dynamic type (the specification function of the abstract method, DESIGN S-heap)"""
    kind = type(token).__name__
    if kind == 'NoteRestToken':
        return render_note(token.pitch_duration_subtokens, token.decoration_subtokens, keep, conv)
    if kind == 'ChordToken':
        return render_chord(token.notes_tokens, keep, conv)
    if kind == 'CompoundToken':
        return render_compound(token.subtokens, keep)
    return token.encoding


def is_note_like(token):
    return type(token).__name__ in ('NoteRestToken', 'ChordToken')


def no_decorations(keep):
    """the category predicate `keep` with DECORATION removed (Basic view)"""
    return lambda c: conj(c != DEC, True if keep is None else keep(c))


def is_simple_token(token):
    """tokens whose text is their verbatim encoding (separators are never inserted into them)"""
    return type(token).__name__ not in ('NoteRestToken', 'ChordToken', 'CompoundToken')


def plain(token, text, both=True):
    """the plain view of an extended text: the separators that rendering inserted are removed; the verbatim text of simple
    tokens contains no inserted separator and is left alone"""
    if is_simple_token(token):
        return text
    if both:
        return strip_separators(text)
    return text.replace(TOKEN_SEP, '')


def note_keeps_pd(n, keep):
    return len([s for s in n.pitch_duration_subtokens if keep(s.category)]) > 0


def keeps_some_pd(token, keep):
    """C04's domain: the category selection keeps at least one duration / pitch part of every note (of a chord)"""
    kind = type(token).__name__
    if kind == 'NoteRestToken':
        return note_keeps_pd(token, keep)
    if kind == 'ChordToken':
        return len([n for n in token.notes_tokens if not note_keeps_pd(n, keep)]) == 0
    return True


def basic_spec(token, keep):
    """Basic view: notes (also inside chords) lose their signifiers; every other token is as in the extended encoding"""
    if is_note_like(token):
        return export_spec(token, no_decorations(keep), None)
    return export_spec(token, keep, None)
