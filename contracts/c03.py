"""C01 / C03 -- the listener functions that build tokens from the parse tree (DESIGN 4.1, 4.3).
The parse-tree contexts are modelled by the shape classes below (assumed contract A-antlr: the recognizer hands the listener
contexts of these shapes; validated by the bounded document-level contracts that run the real recognizer)."""
from pyvc.contract import contract
from pyvc.ghost import ite, conj, disj, implies, iff
from kernpy.core.base_antlr_spine_parser_listener import BaseANTLRSpineParserListener
from kernpy.core.tokens import TokenCategory, Subtoken

L = 'kernpy.core.base_antlr_spine_parser_listener.BaseANTLRSpineParserListener.'
A_SHAPES = 'A-antlr-shapes: the contexts passed to the listener have the accessors of kern/kernSpineParser.g4 (getText, child accessors returning a context, a list of contexts, or None)'


class Text:
    """a parse-tree context of which only the text is read"""
    def __init__(self, text):
        self.text = text

    def getText(self):
        return self.text


def mk_listener(g, decorations):
    return g.new(BaseANTLRSpineParserListener, {'token': None, 'first_chord_element': None, 'chord_tokens': None, 'duration_subtokens': [],
                                                'diatonic_pitch_and_octave_subtoken': None, 'accidental_subtoken': None, 'decorations': decorations,
                                                'in_chord': False, 'measure_start_rows': [], 'last_bounding_box': None}, ())


def mk_decoration_list(g):
    return g.mlist('decos', lambda e: e.new(Subtoken, {'encoding': e.str_sym('encoding'), 'category': TokenCategory.DECORATION}, None))


@contract(L + '_add_decoration', props=['C01', 'C03'])
class add_decoration:
    """the decoration list never holds two entries with the same encoding and keeps the order of first occurrence: a new decoration
    is appended iff no entry has its encoding; existing entries are untouched"""
    assumes = (A_SHAPES,)

    def inputs(g):
        decos = mk_decoration_list(g)
        new = g.new(Subtoken, {'encoding': g.str_sym('new.encoding', ['L', '&(', '(', 'yy', 'y']), 'category': TokenCategory.DECORATION}, None)
        return {'self': mk_listener(g, decos), 'new_decoration': new, '_before': decos.copy()}

    def modifies_objs(self):
        return [self.decorations]

    def post_appended_iff_new(self, new_decoration, before):
        seen = len([d for d in before if d.encoding == new_decoration.encoding]) > 0
        if seen:
            return self.decorations == before
        if len(self.decorations) != len(before) + 1:
            return False
        return conj(self.decorations[-1] is new_decoration, self.decorations[:-1] == before)


# ------------------------------------------------------------------------------------------------ parse-tree shapes (A-antlr-shapes)
class BarlineCtx:
    """barline: EQUAL EQUAL? number? (a? b?) MINUS? barLineType? fermata? j? DOT?   (kern/kernSpineParser.g4)"""
    def __init__(self, equals, number, minus, bar_type, fermata, tail):
        self.equals, self.number, self.minus, self.bar_type, self.fermata_, self.tail = equals, number, minus, bar_type, fermata, tail

    def EQUAL(self, i):
        return Text('=') if i < self.equals else None

    def barLineType(self):
        return self.bar_type

    def fermata(self):
        return self.fermata_

    def getText(self):
        return ('=' * self.equals + self.number + self.minus + ('' if self.bar_type is None else self.bar_type.getText())
                + ('' if self.fermata_ is None else self.fermata_.getText()) + self.tail)


BAR_TYPE_TEXTS = ['||', '|!', '|!:', '|:', '!|:', ':|!', '=:|!', ':|!|:', ':||:', ':!:', ':|', '|', '!', '!!', '=']


@contract(L + 'exitBarline', props=['C01', 'C03'])
class exit_barline:
    """C03 (barlines keep their type and lose only the measure number): the token is a BarToken whose text is the '=' signs (at most
    two), the bar type and the fermata of the cell, in this order; the measure number, the a/b letters and the hidden mark are not part
    of it; the token is flagged hidden iff the cell has the hidden mark '-'."""
    assumes = (A_SHAPES,)

    def inputs(g):
        bar_type = g.choice('bar_type', [None] + BAR_TYPE_TEXTS)
        fermata = g.choice('fermata', [None, ';'])
        number = g.str_sym('number', ['', '1', '27', '3a', '12b'])         # any text without the hidden mark
        g.assume(not ('-' in number))
        ctx = BarlineCtx(g.choice('equals', [1, 2]), number, g.choice('minus', ['', '-']),
                         None if bar_type is None else Text(bar_type), None if fermata is None else Text(fermata), g.choice('tail', ['', 'j', '.']))
        return {'self': mk_listener(g, []), 'ctx': ctx}

    def modifies_objs(self):
        return [self]

    def post_type_kept_number_lost(self, ctx):
        want = ('==' if ctx.equals == 2 else '=') + ('' if ctx.bar_type is None else ctx.bar_type.text) + ('' if ctx.fermata_ is None else ctx.fermata_.text)
        return conj(type(self.token).__name__ == 'BarToken', self.token.encoding == want, self.token.category == TokenCategory.BARLINES)

    def post_hidden_flag(self, ctx):
        return self.token.hidden == (ctx.minus == '-')


class DurationCtx:
    """duration: modernDuration augmentationDot* (graceNote | appoggiatura)?"""
    def __init__(self, modern, dots, grace, app):
        self.modern, self.dots, self.grace, self.app = modern, dots, grace, app

    def modernDuration(self):
        return self.modern

    def augmentationDot(self):
        return self.dots

    def graceNote(self):
        return self.grace

    def appoggiatura(self):
        return self.app


@contract(L + 'exitDuration', props=['C01', 'C03'])
class exit_duration:
    """C03 (every note or rest keeps its duration marks): the duration sub-tokens are the figure, one '.' per augmentation dot, then the
    grace or appoggiatura mark of the cell, all of category DURATION, in this order.  Domain: 0..4 augmentation dots (the loop over the
    dots is unrolled, it has no invariant; the grammar allows any number)."""
    assumes = (A_SHAPES, 'domain: at most 4 augmentation dots per duration (loop unrolled)')

    def inputs(g):
        tail = g.choice('tail', [None, 'q', 'qq', 'p', 'P'])
        ndots = g.choice('dots', [0, 1, 2, 3, 4])
        ctx = DurationCtx(Text(g.str_sym('figure', ['4', '16', '3%2', '0'])), [Text('.') for _ in range(ndots)],
                          None if tail is None or tail[0] != 'q' else Text(tail), None if tail is None or tail[0] == 'q' else Text(tail))
        return {'self': mk_listener(g, []), 'ctx': ctx}

    def modifies_objs(self):
        return [self]

    def post_marks_in_order(self, ctx):
        got = [s.encoding for s in self.duration_subtokens]
        want = [ctx.modern.text] + ['.' for d in ctx.dots] + ([] if ctx.grace is None else [ctx.grace.text]) + ([] if ctx.app is None else [ctx.app.text])
        return got == want

    def post_all_duration(self):
        return len([s for s in self.duration_subtokens if s.category != TokenCategory.DURATION]) == 0


class NoteCtx:
    """note / rest / chord context: its text and, for a note, the optional alteration"""
    def __init__(self, text, alteration):
        self.text, self.alteration_ = text, alteration

    def getText(self):
        return self.text

    def alteration(self):
        return self.alteration_


def mk_busy_listener(g):
    """a listener in the middle of a cell: duration marks, pitch and decorations collected so far"""
    durs = g.mlist('durs', lambda e: e.new(Subtoken, {'encoding': e.str_sym('encoding'), 'category': TokenCategory.DURATION}, None))
    decos = mk_decoration_list(g)
    in_chord = g.bool('in_chord')
    lst = g.new(BaseANTLRSpineParserListener, {'token': None, 'first_chord_element': None, 'chord_tokens': [] if in_chord else None,
                                               'duration_subtokens': durs,
                                               'diatonic_pitch_and_octave_subtoken': g.new(Subtoken, {'encoding': g.str_sym('pitch', ['c', 'GG', 'eee']), 'category': TokenCategory.PITCH}, None),
                                               'accidental_subtoken': None, 'decorations': decos, 'in_chord': in_chord,
                                               'measure_start_rows': [], 'last_bounding_box': None}, ())
    return lst


def built_note(self):
    """the note / rest the listener has just built: the token of the cell, or the last note of the chord being read"""
    return self.chord_tokens[-1] if self.in_chord else self.token


@contract(L + 'exitNote', props=['C01', 'C03'])
class exit_note:
    """C03 (a note keeps its duration marks, pitch letters, accidental and signifiers): the note's pitch-duration sub-tokens are the
    collected duration marks, the pitch letters and the alteration of the cell (if any), in this order; its decorations are the
    collected ones; its text is the cell's.  In a chord the note is added to the chord's notes, otherwise it is the cell's token."""
    assumes = (A_SHAPES,)

    def inputs(g):
        alt = g.choice('alt', [None, '#', '--', 'n', '#X', '-y'])
        return {'self': mk_busy_listener(g), 'ctx': NoteCtx(g.str_sym('text', ['4c#L', '8GG']), None if alt is None else Text(alt))}

    def modifies_objs(self):
        return [self, self.chord_tokens]

    def post_sub_tokens(self, ctx, old):
        n = built_note(self)
        pd = n.pitch_duration_subtokens
        if len(pd) != len(self.duration_subtokens) + (1 if ctx.alteration_ is None else 2):
            return False
        if ctx.alteration_ is None:
            parts_ok = conj(pd[:-1] == self.duration_subtokens, pd[-1] is self.diatonic_pitch_and_octave_subtoken)
        else:
            parts_ok = conj(pd[:-2] == self.duration_subtokens, pd[-2] is self.diatonic_pitch_and_octave_subtoken,
                            pd[-1].encoding == ctx.alteration_.text, pd[-1].category == TokenCategory.ALTERATION)
        return conj(type(n).__name__ == 'NoteRestToken', n.encoding == ctx.text, parts_ok, n.decoration_subtokens is self.decorations)

    def post_placed(self, old):
        if self.in_chord:
            return conj(self.token is None, len(self.chord_tokens) == 1)
        return self.chord_tokens is None
