"""C01 / C03 -- the listener functions that build tokens from the parse tree (DESIGN 4.1, 4.3).
The parse-tree contexts are modelled by the shape classes below (assumed contract A-antlr: the recognizer hands the listener
contexts of these shapes; validated by the bounded document-level contracts that run the real recognizer)."""
from pyvc.contract import contract
from pyvc.ghost import ite, conj, disj, implies, iff
from kernpy.core.base_antlr_spine_parser_listener import BaseANTLRSpineParserListener
from kernpy.core.tokens import TokenCategory, Subtoken

L = 'kernpy.core.base_antlr_spine_parser_listener.BaseANTLRSpineParserListener.'
A_SHAPES = 'A-antlr-shapes: the contexts passed to the listener have the accessors of kern/kernSpineParser.g4 (getText, child accessors returning a context, a list of contexts, or None)'


class Text:
    """a parse-tree context of which only the text is read"""
    def __init__(self, text):
        self.text = text

    def getText(self):
        return self.text


def mk_listener(g, decorations):
    return g.new(BaseANTLRSpineParserListener, {'token': None, 'first_chord_element': None, 'chord_tokens': None, 'duration_subtokens': [],
                                                'diatonic_pitch_and_octave_subtoken': None, 'accidental_subtoken': None, 'decorations': decorations,
                                                'in_chord': False, 'measure_start_rows': [], 'last_bounding_box': None}, ())


def mk_decoration_list(g):
    return g.mlist('decos', lambda e: e.new(Subtoken, {'encoding': e.str_sym('encoding'), 'category': TokenCategory.DECORATION}, None))


@contract(L + '_add_decoration', props=['C01', 'C03'])
class add_decoration:
    """the decoration list never holds two entries with the same encoding and keeps the order of first occurrence: a new decoration
    is appended iff no entry has its encoding; existing entries are untouched"""
    assumes = (A_SHAPES,)

    def inputs(g):
        decos = mk_decoration_list(g)
        new = g.new(Subtoken, {'encoding': g.str_sym('new.encoding', ['L', '&(', '(', 'yy', 'y']), 'category': TokenCategory.DECORATION}, None)
        return {'self': mk_listener(g, decos), 'new_decoration': new, '_before': decos.copy()}

    def modifies_objs(self):
        return [self.decorations]

    def post_appended_iff_new(self, new_decoration, before):
        seen = len([d for d in before if d.encoding == new_decoration.encoding]) > 0
        if seen:
            return self.decorations == before
        if len(self.decorations) != len(before) + 1:
            return False
        return conj(self.decorations[-1] is new_decoration, self.decorations[:-1] == before)
