"""C01 / C03 -- the listener functions that build tokens from the parse tree (DESIGN 4.1, 4.3).
The parse-tree contexts are modelled by the shape classes below (assumed contract A-antlr: the recognizer hands the listener
contexts of these shapes; validated by the bounded document-level contracts that run the real recognizer)."""
from pyvc.contract import contract
from pyvc.ghost import ite, conj, disj, implies, iff
from kernpy.core.base_antlr_spine_parser_listener import BaseANTLRSpineParserListener
from kernpy.core.tokens import TokenCategory, Subtoken
from contracts.shapes import mk_note

L = 'kernpy.core.base_antlr_spine_parser_listener.BaseANTLRSpineParserListener.'
A_SHAPES = 'A-antlr-shapes: the contexts passed to the listener have the accessors of kern/kernSpineParser.g4 (getText, child accessors returning a context, a list of contexts, or None)'


class Text:
    """a parse-tree context of which only the text is read"""
    def __init__(self, text):
        self.text = text

    def getText(self):
        return self.text


def mk_listener(g, decorations):
    return g.new(BaseANTLRSpineParserListener, {'token': None, 'first_chord_element': None, 'chord_tokens': None, 'duration_subtokens': [],
                                                'diatonic_pitch_and_octave_subtoken': None, 'accidental_subtoken': None, 'decorations': decorations,
                                                'in_chord': False, 'measure_start_rows': [], 'last_bounding_box': None}, ())


def mk_decoration_list(g):
    return g.mlist('decos', lambda e: e.new(Subtoken, {'encoding': e.str_sym('encoding', ['L', 'yy', ';', '(', 'y', 'J', '^']), 'category': TokenCategory.DECORATION}, None))


@contract(L + '_add_decoration', props=['C01', 'C03'])
class add_decoration:
    """the decoration list never holds two entries with the same encoding and keeps the order of first occurrence: a new decoration
    is appended iff no entry has its encoding; existing entries are untouched"""
    assumes = (A_SHAPES,)

    def inputs(g):
        decos = mk_decoration_list(g)
        new = g.new(Subtoken, {'encoding': g.str_sym('new.encoding', ['L', '&(', '(', 'yy', 'y']), 'category': TokenCategory.DECORATION}, None)
        return {'self': mk_listener(g, decos), 'new_decoration': new, '_before': decos.copy()}

    def modifies_objs(self):
        return [self.decorations]

    def post_appended_iff_new(self, new_decoration, before):
        seen = len([d for d in before if d.encoding == new_decoration.encoding]) > 0
        if seen:
            return self.decorations == before
        if len(self.decorations) != len(before) + 1:
            return False
        return conj(self.decorations[-1] is new_decoration, self.decorations[:-1] == before)


# ------------------------------------------------------------------------------------------------ parse-tree shapes (A-antlr-shapes)
class BarlineCtx:
    """barline: EQUAL EQUAL? number? (a? b?) MINUS? barLineType? fermata? j? DOT?   (kern/kernSpineParser.g4)"""
    def __init__(self, equals, number, minus, bar_type, fermata, tail):
        self.equals, self.number, self.minus, self.bar_type, self.fermata_, self.tail = equals, number, minus, bar_type, fermata, tail

    def EQUAL(self, i):
        return Text('=') if i < self.equals else None

    def barLineType(self):
        return self.bar_type

    def fermata(self):
        return self.fermata_

    def getText(self):
        return ('=' * self.equals + self.number + self.minus + ('' if self.bar_type is None else self.bar_type.getText())
                + ('' if self.fermata_ is None else self.fermata_.getText()) + self.tail)


BAR_TYPE_TEXTS = ['||', '|!', '|!:', '|:', '!|:', ':|!', '=:|!', ':|!|:', ':||:', ':!:', ':|', '|', '!', '!!', '=']


@contract(L + 'exitBarline', props=['C01', 'C03'])
class exit_barline:
    """C03 (barlines keep their type and lose only the measure number): the token is a BarToken whose text is the '=' signs (at most
    two), the bar type and the fermata of the cell, in this order; the measure number, the a/b letters and the hidden mark are not part
    of it; the token is flagged hidden iff the cell has the hidden mark '-'."""
    assumes = (A_SHAPES,)

    def inputs(g):
        bar_type = g.choice('bar_type', [None] + BAR_TYPE_TEXTS)
        fermata = g.choice('fermata', [None, ';'])
        number = g.str_sym('number', ['', '1', '27', '3a', '12b'])         # any text without the hidden mark
        g.assume(not ('-' in number))
        ctx = BarlineCtx(g.choice('equals', [1, 2]), number, g.choice('minus', ['', '-']),
                         None if bar_type is None else Text(bar_type), None if fermata is None else Text(fermata), g.choice('tail', ['', 'j', '.']))
        return {'self': mk_listener(g, []), 'ctx': ctx}

    def modifies_objs(self):
        return [self]

    def post_type_kept_number_lost(self, ctx):
        want = ('==' if ctx.equals == 2 else '=') + ('' if ctx.bar_type is None else ctx.bar_type.text) + ('' if ctx.fermata_ is None else ctx.fermata_.text)
        return conj(type(self.token).__name__ == 'BarToken', self.token.encoding == want, self.token.category == TokenCategory.BARLINES)

    def post_hidden_flag(self, ctx):
        return self.token.hidden == (ctx.minus == '-')


class DurationCtx:
    """duration: modernDuration augmentationDot* (graceNote | appoggiatura)?"""
    def __init__(self, modern, dots, grace, app):
        self.modern, self.dots, self.grace, self.app = modern, dots, grace, app

    def modernDuration(self):
        return self.modern

    def augmentationDot(self):
        return self.dots

    def graceNote(self):
        return self.grace

    def appoggiatura(self):
        return self.app


@contract(L + 'exitDuration', props=['C01', 'C03'])
class exit_duration:
    """C03 (every note or rest keeps its duration marks): the duration sub-tokens are the figure, one '.' per augmentation dot, then the
    grace or appoggiatura mark of the cell, all of category DURATION, in this order.  Domain: 0..4 augmentation dots (the loop over the
    dots is unrolled, it has no invariant; the grammar allows any number)."""
    assumes = (A_SHAPES, 'domain: at most 4 augmentation dots per duration (loop unrolled)')

    def inputs(g):
        tail = g.choice('tail', [None, 'q', 'qq', 'p', 'P'])
        ndots = g.choice('dots', [0, 1, 2, 3, 4])
        ctx = DurationCtx(Text(g.str_sym('figure', ['4', '16', '3%2', '0'])), [Text('.') for _ in range(ndots)],
                          None if tail is None or tail[0] != 'q' else Text(tail), None if tail is None or tail[0] == 'q' else Text(tail))
        return {'self': mk_listener(g, []), 'ctx': ctx}

    def modifies_objs(self):
        return [self]

    def post_marks_in_order(self, ctx):
        got = [s.encoding for s in self.duration_subtokens]
        want = [ctx.modern.text] + ['.' for d in ctx.dots] + ([] if ctx.grace is None else [ctx.grace.text]) + ([] if ctx.app is None else [ctx.app.text])
        return got == want

    def post_all_duration(self):
        return len([s for s in self.duration_subtokens if s.category != TokenCategory.DURATION]) == 0



@contract(L + 'exitDuration', props=['C01', 'C03'], name='exit_duration_any_dots')
class exit_duration_any_dots:
    """The same statement for ANY number of augmentation dots (the dots are a sequence of unknown length): figure, then exactly one '.'
    per dot, then the grace / appoggiatura mark; all of category DURATION."""
    assumes = (A_SHAPES,)

    def inputs(g):
        tail = g.choice('tail', [None, 'q', 'qq', 'p', 'P'])
        dots = g.seq('dots', lambda e: Text('.'))
        ctx = DurationCtx(Text(g.str_sym('figure', ['4', '16', '3%2', '0'])), dots,
                          None if tail is None or tail[0] != 'q' else Text(tail), None if tail is None or tail[0] == 'q' else Text(tail))
        return {'self': mk_listener(g, []), 'ctx': ctx}

    def modifies_objs(self):
        return [self]

    def post_marks_in_order(self, ctx):
        got = [s.encoding for s in self.duration_subtokens]
        want = [ctx.modern.text] + ['.' for d in ctx.dots] + ([] if ctx.grace is None else [ctx.grace.text]) + ([] if ctx.app is None else [ctx.app.text])
        return got == want

    def post_all_duration(self):
        return len([s for s in self.duration_subtokens if s.category != TokenCategory.DURATION]) == 0


class NoteCtx:
    """note / rest / chord context: its text and, for a note, the optional alteration"""
    def __init__(self, text, alteration):
        self.text, self.alteration_ = text, alteration

    def getText(self):
        return self.text

    def alteration(self):
        return self.alteration_


def mk_busy_listener(g):
    """a listener in the middle of a cell: duration marks, pitch and decorations collected so far"""
    durs = g.mlist('durs', lambda e: e.new(Subtoken, {'encoding': e.str_sym('encoding'), 'category': TokenCategory.DURATION}, None))
    decos = mk_decoration_list(g)
    in_chord = g.bool('in_chord')
    lst = g.new(BaseANTLRSpineParserListener, {'token': None, 'first_chord_element': None, 'chord_tokens': [] if in_chord else None,
                                               'duration_subtokens': durs,
                                               'diatonic_pitch_and_octave_subtoken': g.new(Subtoken, {'encoding': g.str_sym('pitch', ['c', 'GG', 'eee']), 'category': TokenCategory.PITCH}, None),
                                               'accidental_subtoken': None, 'decorations': decos, 'in_chord': in_chord,
                                               'measure_start_rows': [], 'last_bounding_box': None}, ())
    return lst


def built_note(self):
    """the note / rest the listener has just built: the token of the cell, or the last note of the chord being read"""
    return self.chord_tokens[-1] if self.in_chord else self.token


@contract(L + 'exitNote', props=['C01', 'C03'])
class exit_note:
    """C03 (a note keeps its duration marks, pitch letters, accidental and signifiers): the note's pitch-duration sub-tokens are the
    collected duration marks, the pitch letters and the alteration of the cell (if any), in this order; its decorations are the
    collected ones; its text is the cell's.  In a chord the note is added to the chord's notes, otherwise it is the cell's token."""
    assumes = (A_SHAPES,)

    def inputs(g):
        alt = g.choice('alt', [None, '#', '--', 'n', '#X', '-y'])
        return {'self': mk_busy_listener(g), 'ctx': NoteCtx(g.str_sym('text', ['4c#L', '8GG']), None if alt is None else Text(alt))}

    def modifies_objs(self):
        return [self, self.chord_tokens]

    def post_sub_tokens(self, ctx, old):
        n = built_note(self)
        pd = n.pitch_duration_subtokens
        if len(pd) != len(self.duration_subtokens) + (1 if ctx.alteration_ is None else 2):
            return False
        if ctx.alteration_ is None:
            parts_ok = conj(pd[:-1] == self.duration_subtokens, pd[-1] is self.diatonic_pitch_and_octave_subtoken)
        else:
            parts_ok = conj(pd[:-2] == self.duration_subtokens, pd[-2] is self.diatonic_pitch_and_octave_subtoken,
                            pd[-1].encoding == ctx.alteration_.text, pd[-1].category == TokenCategory.ALTERATION)
        return conj(type(n).__name__ == 'NoteRestToken', n.encoding == ctx.text, parts_ok, n.decoration_subtokens is self.decorations)

    def post_placed(self, old):
        if self.in_chord:
            return conj(self.token is None, len(self.chord_tokens) == 1)
        return self.chord_tokens is None

    def post_never_hidden(self):
        # the exporter writes a placeholder for a token flagged hidden (append_row): a note is never flagged, whatever its signifiers
        # (C03: every note keeps its text; only the invisible mark of a barline may hide a token -- known finding of C03)
        return built_note(self).hidden == False


@contract(L + 'exitRest', props=['C01', 'C03'])
class exit_rest:
    """C03 (a rest keeps its duration marks and signifiers): the rest's pitch-duration sub-tokens are the collected duration marks
    followed by one 'r' of category REST; its decorations are the collected ones; its text is the cell's."""
    assumes = (A_SHAPES,)

    def inputs(g):
        return {'self': mk_busy_listener(g), 'ctx': NoteCtx(g.str_sym('text', ['4r', '8.r;']), None)}

    def modifies_objs(self):
        return [self, self.chord_tokens]

    def post_sub_tokens(self, ctx):
        n = built_note(self)
        pd = n.pitch_duration_subtokens
        if len(pd) != len(self.duration_subtokens) + 1:
            return False
        return conj(type(n).__name__ == 'NoteRestToken', n.encoding == ctx.text, pd[:-1] == self.duration_subtokens,
                    pd[-1].encoding == 'r', pd[-1].category == TokenCategory.REST, n.decoration_subtokens is self.decorations)

    def post_placed(self):
        if self.in_chord:
            return conj(self.token is None, len(self.chord_tokens) == 1)
        return self.chord_tokens is None

    def post_never_hidden(self):
        return built_note(self).hidden == False        # (as for notes: a rest is never exported as a placeholder)


def decoration_added(self, before, text):
    """the decoration list after a decoration with `text` was read: unchanged if an entry has that text, else one new DECORATION entry"""
    seen = len([d for d in before if d.encoding == text]) > 0
    if seen:
        return self.decorations == before
    if len(self.decorations) != len(before) + 1:
        return False
    return conj(self.decorations[-1].encoding == text, self.decorations[-1].category == TokenCategory.DECORATION, self.decorations[:-1] == before)


@contract(L + 'exitNoteDecoration', props=['C01', 'C03'])
class exit_note_decoration:
    """C01 (canonical: repetition does not matter) / C03 (a note keeps exactly its set of signifiers): every signifier text read for
    the note is in the decoration list exactly once, in the order of first occurrence."""
    assumes = (A_SHAPES,)

    def inputs(g):
        decos = mk_decoration_list(g)
        return {'self': mk_listener(g, decos), 'ctx': Text(g.str_sym('text', ['L', '&(', '(', 'yy', 'y', '/'])), '_before': decos.copy()}

    def modifies_objs(self):
        return [self.decorations]

    def post_signifier_kept_once(self, ctx, before):
        return decoration_added(self, before, ctx.text)


@contract(L + 'exitRestDecoration', props=['C01', 'C03'])
class exit_rest_decoration:
    """as for notes, except that the stem marks '/' and '\\' are dropped from rests (they make no sense on a rest: the grammar comment
    says so and the importer discards them)"""
    assumes = (A_SHAPES,)

    def inputs(g):
        decos = mk_decoration_list(g)
        return {'self': mk_listener(g, decos), 'ctx': Text(g.str_sym('text', [';', '/', '\\', '(', 'q', '.'])), '_before': decos.copy()}

    def modifies_objs(self):
        return [self.decorations]

    def post_signifier_kept_once_stems_dropped(self, ctx, before):
        if disj(ctx.text == '/', ctx.text == '\\'):
            return self.decorations == before
        return decoration_added(self, before, ctx.text)


@contract(L + 'enterChord', props=['C03'])
class enter_chord:
    """a chord starts with no notes"""
    assumes = (A_SHAPES,)

    def inputs(g):
        return {'self': mk_busy_listener(g), 'ctx': NoteCtx(g.str_sym('text', ['4c 4e']), None)}

    def modifies_objs(self):
        return [self]

    def post_empty_chord(self):
        return conj(self.in_chord == True, len(self.chord_tokens) == 0)


@contract(L + 'exitChord', props=['C01', 'C03'])
class exit_chord:
    """C03 (no note of a chord is lost): the cell's token is a ChordToken over exactly the notes read since enterChord, in order,
    with the cell's text"""
    assumes = (A_SHAPES,)

    def inputs(g):
        notes = g.mlist('notes', lambda e: mk_note(e, 'n'))
        lst = g.new(BaseANTLRSpineParserListener, {'token': None, 'first_chord_element': None, 'chord_tokens': notes, 'duration_subtokens': [],
                                                   'diatonic_pitch_and_octave_subtoken': None, 'accidental_subtoken': None, 'decorations': [],
                                                   'in_chord': True, 'measure_start_rows': [], 'last_bounding_box': None}, ())
        return {'self': lst, 'ctx': NoteCtx(g.str_sym('text', ['4c 4e', '8r 8g']), None)}

    def modifies_objs(self):
        return [self]

    def post_chord_over_the_notes(self, ctx):
        return conj(type(self.token).__name__ == 'ChordToken', self.token.encoding == ctx.text, self.token.category == TokenCategory.CHORD,
                    self.token.notes_tokens is self.chord_tokens, self.in_chord == False)


SIMPLE_EXITS = {'exitEmpty': ('SimpleToken', TokenCategory.EMPTY), 'exitNonVisualTandemInterpretation': ('SimpleToken', TokenCategory.OTHER),
                'exitVisualTandemInterpretation': ('SimpleToken', TokenCategory.ENGRAVED_SYMBOLS), 'exitOtherContextual': ('SimpleToken', TokenCategory.OTHER_CONTEXTUAL),
                'exitStructural': ('SimpleToken', TokenCategory.STRUCTURAL), 'exitClef': ('ClefToken', TokenCategory.CLEF),
                'exitKeySignature': ('KeySignatureToken', TokenCategory.KEY_SIGNATURE), 'exitKeyCancel': ('KeySignatureToken', TokenCategory.KEY_SIGNATURE),
                'exitKey': ('KeyToken', TokenCategory.KEY_TOKEN), 'exitTimeSignature': ('TimeSignatureToken', TokenCategory.TIME_SIGNATURE),
                'exitMeterSymbol': ('MeterSymbolToken', TokenCategory.METER_SYMBOL), 'exitInstrument': ('InstrumentToken', TokenCategory.INSTRUMENTS)}


def verbatim(self, ctx, which):
    cls_name, cat = SIMPLE_EXITS[which]
    return conj(type(self.token).__name__ == cls_name, self.token.encoding == ctx.text, self.token.category == cat, self.token.hidden == False)


def text_cell(g):
    return {'self': mk_listener(g, []), 'ctx': Text(g.str_sym('text', ['.', '*clefG2', '*k[f#]', '*M3/4', '*met(c)', '*C:', '*Ipiano', '*staff1', '*>A', '*']))}


@contract(L + 'exitEmpty', props=['C03'])
class verbatim_exitEmpty:
    """C03 (every non-note cell is reproduced verbatim): the token carries the text of the cell unchanged"""
    assumes = (A_SHAPES,)

    def inputs(g):
        return text_cell(g)

    def modifies_objs(self):
        return [self]

    def post_verbatim(self, ctx):
        return verbatim(self, ctx, 'exitEmpty')


@contract(L + 'exitNonVisualTandemInterpretation', props=['C03'])
class verbatim_exitNonVisualTandemInterpretation:
    """C03 (every non-note cell is reproduced verbatim): the token carries the text of the cell unchanged"""
    assumes = (A_SHAPES,)

    def inputs(g):
        return text_cell(g)

    def modifies_objs(self):
        return [self]

    def post_verbatim(self, ctx):
        return verbatim(self, ctx, 'exitNonVisualTandemInterpretation')


@contract(L + 'exitVisualTandemInterpretation', props=['C03'])
class verbatim_exitVisualTandemInterpretation:
    """C03 (every non-note cell is reproduced verbatim): the token carries the text of the cell unchanged"""
    assumes = (A_SHAPES,)

    def inputs(g):
        return text_cell(g)

    def modifies_objs(self):
        return [self]

    def post_verbatim(self, ctx):
        return verbatim(self, ctx, 'exitVisualTandemInterpretation')


@contract(L + 'exitOtherContextual', props=['C03'])
class verbatim_exitOtherContextual:
    """C03 (every non-note cell is reproduced verbatim): the token carries the text of the cell unchanged"""
    assumes = (A_SHAPES,)

    def inputs(g):
        return text_cell(g)

    def modifies_objs(self):
        return [self]

    def post_verbatim(self, ctx):
        return verbatim(self, ctx, 'exitOtherContextual')


@contract(L + 'exitStructural', props=['C03'])
class verbatim_exitStructural:
    """C03 (every non-note cell is reproduced verbatim): the token carries the text of the cell unchanged"""
    assumes = (A_SHAPES,)

    def inputs(g):
        return text_cell(g)

    def modifies_objs(self):
        return [self]

    def post_verbatim(self, ctx):
        return verbatim(self, ctx, 'exitStructural')


@contract(L + 'exitClef', props=['C03'])
class verbatim_exitClef:
    """C03 (every non-note cell is reproduced verbatim): the token carries the text of the cell unchanged"""
    assumes = (A_SHAPES,)

    def inputs(g):
        return text_cell(g)

    def modifies_objs(self):
        return [self]

    def post_verbatim(self, ctx):
        return verbatim(self, ctx, 'exitClef')


@contract(L + 'exitKeySignature', props=['C03'])
class verbatim_exitKeySignature:
    """C03 (every non-note cell is reproduced verbatim): the token carries the text of the cell unchanged"""
    assumes = (A_SHAPES,)

    def inputs(g):
        return text_cell(g)

    def modifies_objs(self):
        return [self]

    def post_verbatim(self, ctx):
        return verbatim(self, ctx, 'exitKeySignature')


@contract(L + 'exitKeyCancel', props=['C03'])
class verbatim_exitKeyCancel:
    """C03 (every non-note cell is reproduced verbatim): the token carries the text of the cell unchanged"""
    assumes = (A_SHAPES,)

    def inputs(g):
        return text_cell(g)

    def modifies_objs(self):
        return [self]

    def post_verbatim(self, ctx):
        return verbatim(self, ctx, 'exitKeyCancel')


@contract(L + 'exitKey', props=['C03'])
class verbatim_exitKey:
    """C03 (every non-note cell is reproduced verbatim): the token carries the text of the cell unchanged"""
    assumes = (A_SHAPES,)

    def inputs(g):
        return text_cell(g)

    def modifies_objs(self):
        return [self]

    def post_verbatim(self, ctx):
        return verbatim(self, ctx, 'exitKey')


@contract(L + 'exitTimeSignature', props=['C03'])
class verbatim_exitTimeSignature:
    """C03 (every non-note cell is reproduced verbatim): the token carries the text of the cell unchanged"""
    assumes = (A_SHAPES,)

    def inputs(g):
        return text_cell(g)

    def modifies_objs(self):
        return [self]

    def post_verbatim(self, ctx):
        return verbatim(self, ctx, 'exitTimeSignature')


@contract(L + 'exitMeterSymbol', props=['C03'])
class verbatim_exitMeterSymbol:
    """C03 (every non-note cell is reproduced verbatim): the token carries the text of the cell unchanged"""
    assumes = (A_SHAPES,)

    def inputs(g):
        return text_cell(g)

    def modifies_objs(self):
        return [self]

    def post_verbatim(self, ctx):
        return verbatim(self, ctx, 'exitMeterSymbol')


@contract(L + 'exitInstrument', props=['C03'])
class verbatim_exitInstrument:
    """C03 (every non-note cell is reproduced verbatim): the token carries the text of the cell unchanged"""
    assumes = (A_SHAPES,)

    def inputs(g):
        return text_cell(g)

    def modifies_objs(self):
        return [self]

    def post_verbatim(self, ctx):
        return verbatim(self, ctx, 'exitInstrument')


class XywhCtx:
    def __init__(self, x, y, w, h):
        self.x_, self.y_, self.w_, self.h_ = x, y, w, h

    def x(self):
        return self.x_

    def y(self):
        return self.y_

    def w(self):
        return self.w_

    def h(self):
        return self.h_


class BoundingBoxCtx:
    """boundingBox: '*xywh-' pageNumber ':' x ',' y ',' w ',' h"""
    def __init__(self, text, page, xywh):
        self.text, self.page, self.xywh_ = text, page, xywh

    def getText(self):
        return self.text

    def pageNumber(self):
        return self.page

    def xywh(self):
        return self.xywh_


@contract(L + 'exitBoundingBox', props=['C03'])
class exit_bounding_box:
    """C03 (non-note cells verbatim): the token carries the text of the cell unchanged; the page and the box are the numbers written
    in the cell (x, y, x + w, y + h)"""
    assumes = (A_SHAPES,)

    def inputs(g):
        x, y, w, h = g.int('x', 0), g.int('y', 0), g.int('w', 0), g.int('h', 0)
        ctx = BoundingBoxCtx(g.str_sym('text', ['*xywh-1:10,20,300,40']), Text(g.str_sym('page', ['1', '12'])),
                             XywhCtx(Text(str(x)), Text(str(y)), Text(str(w)), Text(str(h))))
        return {'self': mk_listener(g, []), 'ctx': ctx, '_x': x, '_y': y, '_w': w, '_h': h}

    def modifies_objs(self):
        return [self]

    def post_verbatim_with_its_numbers(self, ctx, x, y, w, h):
        t = self.token
        b = t.bounding_box
        return conj(type(t).__name__ == 'BoundingBoxToken', t.encoding == ctx.text, t.page_number == ctx.page.text,
                    b.from_x == x, b.from_y == y, b.to_x == x + w, b.to_y == y + h)
