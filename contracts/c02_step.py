"""C02 / C07 / C12 -- the cell step of Importer.run (DESIGN 4.2, 4.7, 4.12): one iteration of `for icolumn, column in enumerate(row)`
for a cell that is neither a spine header nor a spine operator (those two go through _compute_header_token /
_compute_spine_operator_token, which have their own contracts), from an arbitrary state of the import.

Stated per cell, for every state: exactly one node is created; it hangs under the node of the previous stage in the same column (the
cell above on the same spine path: C02), carries the stage of the row, the header node and the spine operator in force of that
parent; its token is the field comment, the token the spine importer returned, or -- iff the spine importer raised -- an ErrorToken
with the verbatim cell and the current line number, which is appended to the error list exactly once (C12); the row is flagged as
a measure start iff it was already, or the token is a barline, or it is a core token and no measure start exists yet (C07); a
signature token becomes the signature in force of its own node.  The spine importer and the importer table are stubs (A-cell-stubs)."""
from pyvc.contract import contract
from pyvc.ghost import ite, conj, disj, implies, iff
from contracts.spec_cat import is_desc
from contracts.spec_tokens import CELL_CORPUS
from contracts.shapes import mk_full_importer, mk_simple_like, mk_any_token, mk_path_node
from kernpy.core.importer import Importer
from kernpy.core.tokens import TokenCategory, SPINE_OPERATIONS

IMP = 'kernpy.core.importer.Importer.'
A_STUBS = ('A-cell-stubs: the importer table answers get(header text) with the importer registered for that text or None; a spine '
           'importer either raises an exception or returns a token (which one: C18, C12)')


class SpineImporterStub:
    def __init__(self, fails, token):
        self.fails, self.token = fails, token

    def import_token(self, encoding):
        if self.fails:
            raise Exception('cannot read the cell')
        return self.token


class ImporterTableStub:
    """the importer table: the importer registered for the header text of the spine the cell descends from, and a different importer
    (one that returns another token) for every other header text -- an importer looked up under another spine's header is seen"""
    def __init__(self, key, importer, other):
        self.key, self.importer, self.other = key, importer, other

    def get(self, key, default=None):
        if key == self.key:
            return self.importer
        return self.other


def mk_cell_state(g):
    outcome = g.choice('import', ['raises', 'SimpleToken', 'BarToken', 'note', 'ClefToken', 'unknown-header'])
    token = None if outcome in ('raises', 'unknown-header') else mk_any_token(g, outcome, 'imported')
    importer = None if outcome == 'unknown-header' else SpineImporterStub(outcome == 'raises', token)
    # the cells of the row above: ordinary cells, or the cells of a spine-operator record (a split / join just happened)
    imp = mk_full_importer(g, parents=g.choice('row above', ['cells', 'operators']))
    table = ImporterTableStub(None, importer, SpineImporterStub(False, mk_any_token(g, 'SimpleToken', 'other_spine')))
    errors = g.mlist('errors', lambda e: mk_simple_like(e, 'ErrorToken', 'err'))
    mst = g.mlist('mst', lambda e: e.int('stage', 0))
    imp._importers, imp.errors = table, errors
    imp._document.measure_start_tree_stages = mst
    return imp, outcome, token


def last_operator_of(parent):
    if type(parent.token).__name__ == 'SpineOperationToken':
        return parent
    return parent.last_spine_operator_node


@contract(IMP + 'run', props=['C02', 'C07', 'C08', 'C10', 'C12'], name='run_cell_step')
class run_cell_step:
    step = 'for icolumn, column in'
    assumes = (A_STUBS,)

    def inputs(g):
        imp, outcome, token = mk_cell_state(g)
        column = g.str_sym('column', CELL_CORPUS)
        icolumn = g.int('icolumn', 0)
        is_barline = g.bool('is_barline')
        prev = imp._prev_stage_parents
        if icolumn < len(prev):
            imp._importers.key = prev[icolumn].header_node.token.encoding       # the header of the spine this cell descends from
        return {'self': imp, 'row': [column], 'icolumn': icolumn, 'column': column, 'is_barline': is_barline,
                '_outcome': outcome, '_imported': token, '_prev': prev, '_next_before': imp._next_stage_parents.copy(),
                '_errors_before': imp.errors.copy(), '_was_barline': is_barline,
                '_parent': prev[icolumn] if icolumn < len(prev) else None,
                '_target': imp._tree.stages[imp._tree_stage] if imp._tree_stage < len(imp._tree.stages) else None}

    def requires(self, column, icolumn):
        # the cells of this contract: not a spine header, not a spine operator; the stage counter is within the tree (invariant of
        # run: the stage of the current row is the last stage of the tree or the next one)
        return conj(len(column) > 0, not column.startswith('**'), not (column in SPINE_OPERATIONS),
                    self._tree_stage <= len(self._tree.stages), self._tree_stage >= 0)

    def raises(self, column, icolumn, outcome, prev, parent):
        surplus = icolumn >= len(prev)
        comment = column.startswith('!')
        return {'ValueError': conj(not comment, surplus),
                'IndexError': conj(comment, surplus),
                'Exception': conj(not comment, not surplus, disj(outcome == 'unknown-header', False if parent is None else parent.header_node is None))}

    def modifies_objs(self, parent, target):
        return ([self, self._next_stage_parents, self.errors, self._tree.stages, 'Node.NextID'] + ([] if parent is None else [parent.children])
                + ([] if target is None else [target]))

    def post_one_node_under_the_cell_above(self, node, parent, next_before):
        return conj(self._next_stage_parents == next_before + [node], node.parent is parent, node.stage == self._tree_stage,
                    node.header_node is parent.header_node, node.last_spine_operator_node is last_operator_of(parent),
                    parent.children[-1] is node)

    def post_token_verbatim_or_one_error(self, node, column, outcome, imported, errors_before):
        if column.startswith('!'):
            return conj(type(node.token).__name__ == 'FieldCommentToken', node.token.encoding == column, self.errors == errors_before)
        if outcome == 'raises':
            return conj(type(node.token).__name__ == 'ErrorToken', node.token.encoding == column, node.token.line == self._row_number,
                        self.errors == errors_before + [node.token])
        return conj(node.token is imported, self.errors == errors_before)

    def post_signatures_in_force(self, node, parent, outcome, column):
        # C08's bookkeeping: the node gets its own copy of the signatures in force above it (here: none); a signature token becomes
        # the signature in force of its class for its own node (and, by the copy, for the cells below it)
        sig = node.last_signature_nodes
        own = conj(not column.startswith('!'), outcome == 'ClefToken')
        if own:
            return conj(sig is not parent.last_signature_nodes, len(sig.nodes) == 1, sig.nodes['ClefToken'] is node,
                        len(parent.last_signature_nodes.nodes) == 0)
        return conj(sig is not parent.last_signature_nodes, len(sig.nodes) == 0)

    def post_measure_start_flag(self, node, is_barline, was_barline):
        c = node.token.category
        starts = disj(c == TokenCategory.BARLINES,
                      conj(disj(c == TokenCategory.CORE, is_desc(TokenCategory.CORE, c)), len(self._document.measure_start_tree_stages) == 0))
        return iff(is_barline, disj(was_barline, starts))

    def post_loop_goes_on(flow):
        return flow == 'next'


@contract(IMP + 'run', props=['C02', 'C07', 'C12', 'C17', 'C19'], name='run_row_step')
class run_row_step:
    """The row bookkeeping of Importer.run: one iteration of `for row in reader` for an empty line and for a row of one cell (the cell
    itself: run_cell_step; rows of more cells repeat the cell step, which does not depend on the column count; global comments go
    through _compute_metacomment_token).  An empty line only advances the line counter (C12: line numbers count every line of the
    file).  A row opens a new stage: the stage counter and the line counter advance by one, the nodes of the row before become the
    parents and the nodes of this row are collected from scratch; iff the row was flagged as a measure start (by run_cell_step's
    rule) its stage is appended to the measure index -- exactly once per row -- and the last measure number is the size of the index
    (C07, C19)."""
    step = 'for row in'
    assumes = (A_STUBS, 'domain: empty rows, global comment rows, rows of one cell, and rows of one cell followed by an empty or blank surplus cell '
                        'under one live spine path (the column loop is unrolled)')

    def inputs(g):
        imp, outcome, token = mk_cell_state(g)
        kind = g.choice('row', ['empty', 'one cell', 'global comment', 'one cell and a blank surplus cell'])
        empty = kind == 'empty'
        surplus = kind == 'one cell and a blank surplus cell'
        blank = g.choice('blank', ['', ' '])
        column = g.str_sym('column', CELL_CORPUS)
        if kind == 'global comment':
            # '!!' + any text + a last character that is not a blank (the row is stripped before it becomes the token text)
            column = '!!' + g.str_sym('comment.text', ['!COM: Bach', ' a comment']) + g.choice('comment.last', ['h', ':', '.'])
        mst = imp._document.measure_start_tree_stages
        g.assume(len(imp._next_stage_parents) > 0)        # a row after the header row: there are cells above
        imp._importers.key = imp._next_stage_parents[0].header_node.token.encoding     # the header of the spine of the (only) cell
        if surplus:
            g.assume(len(imp._next_stage_parents) == 1)   # one live spine path: the second cell is one too many, blank or not
        return {'self': imp, 'reader': None, 'row': [] if empty else ([column, blank] if surplus else [column]), '_above': imp._next_stage_parents[0], '_surplus': surplus,
                '_outcome': outcome, '_column': column, '_empty': empty, '_comment': kind == 'global comment',
                '_pre_header_node': imp._last_node_previous_to_header, '_prev_before': imp._prev_stage_parents, '_mst_before': mst.copy(), '_next_before': imp._next_stage_parents,
                '_stage_before': imp._tree_stage, '_line_before': imp._row_number,
                '_target': imp._tree.stages[imp._tree_stage + 1] if imp._tree_stage + 1 < len(imp._tree.stages) else None}

    def requires(self, column, outcome, above, comment):
        return conj(len(column) > 0, not column.startswith('**'), iff(column.startswith('!!'), comment), not (column in SPINE_OPERATIONS),
                    self._header_row_number is None,
                    self._tree_stage + 1 <= len(self._tree.stages), self._tree_stage >= 0,
                    above.header_node is not None, outcome != 'unknown-header')

    def modifies_objs(self, target, above, pre_header_node):
        return ([self, self.errors, self._tree.stages, self._document.measure_start_tree_stages, 'Node.NextID', above.children,
                 pre_header_node.children] + ([] if target is None else [target]))

    def raises(surplus):
        # a line with more cells than live spine paths is refused -- an empty or blank cell is a cell (C02)
        return {'ValueError': surplus}

    def post_counters(self, empty, stage_before, line_before):
        return conj(self._row_number == line_before + 1, self._tree_stage == (stage_before if empty else stage_before + 1))

    def post_global_comment_row(self, comment, column, pre_header_node, next_before, mst_before):
        # a global comment belongs to no spine: one node, with the verbatim text, chained below the previous global record (or the
        # root); the cells of the row above stay the parents of the next row; no measure starts
        if not comment:
            return True
        node = self._last_node_previous_to_header
        return conj(node.parent is pre_header_node, type(node.token).__name__ == 'MetacommentToken', node.token.encoding == column,
                    node.stage == self._tree_stage, self._prev_stage_parents == next_before, len(self._next_stage_parents) == 0,
                    self._document.measure_start_tree_stages == mst_before)

    def post_parents_shift(self, empty, next_before, above, comment):
        if comment:
            return True
        if empty:
            return self._next_stage_parents is next_before
        return conj(self._prev_stage_parents == next_before, len(self._next_stage_parents) == 1,
                    self._next_stage_parents[0].parent is above, self._next_stage_parents[0].stage == self._tree_stage)

    def post_measure_index(self, empty, mst_before, comment):
        mst = self._document.measure_start_tree_stages
        if empty or comment:
            return mst == mst_before
        c = self._next_stage_parents[0].token.category
        starts = disj(c == TokenCategory.BARLINES, conj(disj(c == TokenCategory.CORE, is_desc(TokenCategory.CORE, c)), len(mst_before) == 0))
        if starts:
            return conj(mst == mst_before + [self._tree_stage], self.last_measure_number == len(mst_before) + 1)
        return mst == mst_before

    def post_loop_goes_on(flow):
        return flow == 'next'


@contract(IMP + 'run', props=['C02'], name='run_tail')
class run_tail:
    """After the last row (tail contract): `run` hands out the very document the rows were imported into, and changes nothing on the
    way out."""
    tail = 'for row in'

    def inputs(g):
        imp, outcome, token = mk_cell_state(g)
        return {'self': imp, 'reader': None, '_document': imp._document}

    modifies = ()

    def post_returns_the_imported_document(result, document):
        return result is document
