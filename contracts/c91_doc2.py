"""More document-level contracts (bounded stand-ins, see c90_doc.py): C08, C12, C13, C14, C15, C20."""
import copy
import os
import random
import subprocess
import sys
import tempfile

from pyvc.contract import contract
import kernpy as kp
from kernpy.core.tokens import TokenCategory
from contracts.gen_doc import gen_score, measures_of
from contracts.c90_doc import BOUND, doc_inputs, lines_of, expected_lines, kern_score, data_lines


# ================================================================================================================ C12
GARBAGE = ['4d@x', '2a@x', '4d@', '4E·J', '4c ', '4r ', '4zz', 'zz', '4c&&&', '4cR', '4c4c%', '=1x%', '*clefQ9', 'c4@', '@', '4%', '8..', '%%', '4c##x#', 'Ñ', '4c\x7f']


@contract(None, props=['C12'], bounded=BOUND + '; 1..3 cells replaced by malformed text (unknown characters, wrong order, truncated, valid + garbage), in data records and beside spine operators / in interpretation records')
class malformed_cells_isolated:
    """C12: exactly one error per malformed cell with its line number, every other token as without the damage, malformed cells
    exported verbatim in place; the outcome of a cell does not depend on the cells parsed before it."""
    def inputs(g):
        score, rng = doc_inputs(g, comments=False)
        slots = [(ri, c.col) for ri, r in enumerate(score.rows) if r.kind == 'data' for c in r.cells
                 if score.headers[c.spine] == '**kern' and c.kind != 'null']
        # ... and the cells of kern spines that stand beside a spine operator of another spine or in an interpretation record (a
        # malformed cell is a malformed cell in every kind of record)
        beside = [(ri, c.col) for ri, r in enumerate(score.rows) if r.kind in ('ops', 'interp') for c in r.cells
                  if score.headers[c.spine] == '**kern' and (c.text == '*' or c.kind in ('interp', 'nullinterp'))
                  and not all(x.text == '*-' or x is c for x in r.cells)]
        picks = rng.sample(slots, min(len(slots), rng.choice([1, 1, 2, 3]))) if slots else []
        if beside and rng.random() < 0.5:
            picks = picks[:2] + [rng.choice(beside)]
        damage = {p: rng.choice(GARBAGE) for p in picks}
        if picks and rng.random() < 0.4:
            # the same malformed text in every kern cell of one line (and once more elsewhere): equal cells are still separate cells
            same = rng.choice(GARBAGE)
            for p in slots:
                if p[0] == picks[0][0]:
                    damage[p] = same
            damage[picks[-1]] = same
        return {'score': score, 'damage': damage, 'blank_lines': rng.random() < 0.3}

    def requires(damage):
        return len(damage) > 0

    def _damaged(score, damage, blank_lines):
        lines = []
        for ri, r in enumerate(score.rows):
            if r.kind == 'global':
                lines.append(r.text)
            else:
                lines.append('\t'.join(damage.get((ri, c.col), c.text) for c in r.cells))
        if blank_lines:
            # two empty lines after the first line: they are skipped by the importer but count as lines of the file
            lines = lines[:1] + ['', ''] + lines[1:]
        text = '\n'.join(lines) + '\n'
        return text

    def post_one_error_per_malformed_cell(score, damage, blank_lines):
        text = malformed_cells_isolated._damaged(score, damage, blank_lines)
        shift = 2 if blank_lines else 0
        really_bad = {}
        for pos, cell in damage.items():
            try:
                kp.KernSpineImporter().import_token(cell)
            except Exception:
                really_bad[pos] = cell
        doc, errs = kp.loads(text)
        if len(errs) != len(really_bad):
            return False
        got = sorted((e.line, e.encoding) for e in errs)
        want = sorted((ri + 1 + (shift if ri >= 1 else 0), cell) for (ri, col), cell in really_bad.items())
        return got == want

    def post_other_tokens_untouched_and_verbatim(score, damage, blank_lines):
        text = malformed_cells_isolated._damaged(score, damage, blank_lines)
        doc, errs = kp.loads(text)
        ref, _ = kp.loads(score.text())
        out, ref_out = lines_of(kp.dumps(doc, encoding=kp.Encoding.eKern)), lines_of(kp.dumps(ref, encoding=kp.Encoding.eKern))
        bad = {(e.line - 1) for e in errs}
        # line by line: undamaged lines identical; damaged cells verbatim
        exp_lines = []
        for ri, r in enumerate(score.rows):
            if r.kind == 'global':
                continue
            cells = []
            for c in r.cells:
                if (ri, c.col) in damage:
                    d = damage[(ri, c.col)]
                    try:
                        tok = kp.KernSpineImporter().import_token(d)
                        cells.append(tok.export())
                    except Exception:
                        cells.append(d)
                else:
                    cells.append(('**e' + c.text[2:]) if c.kind == 'header' else c.expected_ekern())
            if all(x in ('.', '*', '') for x in cells):
                continue
            exp_lines.append('\t'.join(cells))
        return out == exp_lines

    def post_history_independent(score, damage):
        # one importer object sees valid and invalid tokens in any order: the outcome of each cell is that of a fresh importer
        imp = kp.KernSpineImporter()
        cells = [c.text for r in score.rows if r.kind == 'data' for c in r.cells if score.headers[c.spine] == '**kern'][:6] + list(damage.values())
        random.Random(len(cells)).shuffle(cells)
        for cell in cells:
            try:
                a = imp.import_token(cell).export()
            except Exception:
                a = 'RAISES'
            try:
                b = kp.KernSpineImporter().import_token(cell).export()
            except Exception:
                b = 'RAISES'
            if a != b:
                return False
        return True

    def post_nothing_silently_shortened(damage):
        for cell in damage.values():
            try:
                tok = kp.KernSpineImporter().import_token(cell)
            except Exception:
                continue
            # accepted: then every character of the cell is accounted for in the token (encoding is the cell itself).
            # Barlines are the class of the known finding `partly_recognized_barline` below (kept lenient by the pinned tests).
            if tok.encoding != cell and not cell.startswith('='):
                return False
        return True


@contract(None, props=['C12'], bounded='the listed barline cells with trailing unrecognised text')
class partly_recognized_barline:
    """Known finding (C12): a barline followed by text the grammar cannot read is accepted and silently shortened ('=1x%' is
    imported as '='); the pinned tests require the lenient reading of barlines ('=:|!-', '===='), so the general repair
    (fbbdc83) exempts them."""
    def inputs(g):
        return {'cell': g.choice('cell', ['=1x%', '=2||zz', '==R'])}

    def post_reported_or_kept(cell):
        try:
            tok = kp.KernSpineImporter().import_token(cell)
        except Exception:
            return True
        import re
        return tok.export() == re.sub(r'[0-9]+', '', cell)


# ================================================================================================================ C13
@contract(None, props=['C13'], bounded=BOUND + '; products of spine subsets, include/exclude pairs, the six encodings')
class options_act_independently:
    """C13: the export under (spines, categories, encoding) equals the cell-wise composition: column projection of the export under
    (categories, encoding); rows suppressed after all gates; explicit defaults equal omitted options."""
    def inputs(g):
        score, rng = doc_inputs(g, signatures_first=True)
        n = len(score.headers)
        ids = [i for i in range(n) if rng.random() < 0.7]
        inc = set(rng.sample(list(TokenCategory), rng.randint(2, 10))) | {TokenCategory.HEADER}
        enc = rng.choice([kp.Encoding.eKern, kp.Encoding.normalizedKern, kp.Encoding.bKern, kp.Encoding.bEkern])
        return {'score': score, 'ids': ids, 'include': inc, 'enc': enc}

    def post_spine_projection_commutes(score, ids, include, enc):
        doc, _ = kp.loads(score.text())
        both = lines_of(kp.dumps(doc, spine_ids=ids, include=include, encoding=enc))
        only_cat = kp.dumps(doc, include=include, encoding=enc)
        # project the columns of the category/encoding export using the reference model's column ownership
        sel = kp.TokenCategory.valid(include=include)
        out = []
        full = lines_of(kp.dumps(doc, include=include, encoding=enc, spine_ids=None))
        rows = []
        k = 0
        # rebuild from per-stage exports: export each spine alone and zip them is not possible after row suppression, so
        # compare through the cell oracle of the gates instead
        exporter = kp.Exporter()
        opts_cat = kp.Generic.parse_options_to_ExportOptions(include=include, kern_type=enc) if hasattr(kp, 'Generic') else None
        from kernpy.core.generic import Generic
        o_both = Generic.parse_options_to_ExportOptions(spine_ids=ids, include=include, kern_type=enc)
        o_cat = Generic.parse_options_to_ExportOptions(include=include, kern_type=enc)
        want = []
        for stage in doc.tree.stages:
            row_cat, keep = [], []
            for node in stage:
                r = []
                exporter.append_row(document=doc, node=node, options=o_cat, row=r)
                if r:
                    h = exporter.compute_header_type(node)
                    row_cat.append(r[0])
                    keep.append(h.spine_id in ids)
            proj = [c for c, k2 in zip(row_cat, keep) if k2]
            if proj and not all(c in ('.', '*', '') for c in proj):
                want.append('\t'.join(proj))
        return both == want

    def post_explicit_defaults(score):
        doc, _ = kp.loads(score.text())
        return kp.dumps(doc) == kp.dumps(doc, spine_types=list(kp.core.tokens.HEADERS), include=set(TokenCategory), exclude=set(),
                                         encoding=kp.Encoding.normalizedKern, show_measure_numbers=False, spine_ids=None,
                                         from_measure=None, to_measure=None, instruments=None)


# ================================================================================================================ C14
def deep_snapshot(doc):
    from pyvc.verify import deep_state
    import kernpy.core.tokens as T
    import kernpy.core.pitch_models as PM
    import kernpy.core.transposer as TR
    consts = {'HEADERS': sorted(T.HEADERS), 'BEKERN': sorted(c.name for c in T.BEKERN_CATEGORIES), 'NONCORE': sorted(c.name for c in T.NON_CORE_CATEGORIES),
              'hierarchy': repr(T.TokenCategoryHierarchyMapper.hierarchy), 'Chromas': dict(PM.Chromas), 'Intervals': dict(TR.Intervals),
              'SPINE_OPERATIONS': sorted(T.SPINE_OPERATIONS)}
    return deep_state({'tree': doc.tree, 'mst': doc.measure_start_tree_stages, 'pbb': doc.page_bounding_boxes, 'hs': doc.header_stage, 'consts': consts})


READ_OPS = ['dumps', 'dumps_opts', 'dumps_range', 'dumps_bad', 'tokens', 'unique', 'freq', 'meta', 'spine_types', 'mono', 'iter', 'count', 'graph',
            'dumps_agnostic', 'encodings', 'header_nodes', 'spine_ids', 'iter_abandoned', 'iter_overlapping', 'next', 'dumps_any', 'dumps_any']


def run_op(doc, op, rng):
    cats = rng.sample(list(TokenCategory), 3)
    try:
        if op == 'dumps':
            return kp.dumps(doc)
        if op == 'dumps_opts':
            return kp.dumps(doc, include=set(cats), spine_ids=[0], encoding=rng.choice(list(kp.Encoding)[:4]))
        if op == 'dumps_range':
            return kp.dumps(doc, from_measure=1, to_measure=1, spine_types=['**kern'])
        if op == 'dumps_bad':
            return kp.dumps(doc, from_measure=-1)
        if op == 'dumps_any':
            # any combination of the export options: a measure range (possibly out of range), a subset of the spine ids, spine types,
            # a category selection, an encoding
            M = len(doc.measure_start_tree_stages)
            kw = {}
            if rng.random() < 0.7:
                kw['from_measure'] = rng.randint(0, M + 1)
            if rng.random() < 0.7:
                kw['to_measure'] = rng.randint(0, M + 1)
            if rng.random() < 0.6:
                ids = doc.get_spine_ids()
                kw['spine_ids'] = [i for i in ids if rng.random() < 0.5]
            if rng.random() < 0.4:
                kw['spine_types'] = rng.sample(['**kern', '**text', '**dynam', '**harm'], rng.randint(1, 3))
            if rng.random() < 0.4:
                kw['include'] = set(cats)
            if rng.random() < 0.4:
                kw['encoding'] = rng.choice(list(kp.Encoding)[:6])
            return kp.dumps(doc, **kw)
        if op == 'dumps_agnostic':
            return kp.dumps(doc, encoding=kp.Encoding.agnosticKern)
        if op == 'tokens':
            return [t.encoding for t in doc.get_all_tokens(cats)]
        if op == 'unique':
            return [t.encoding for t in doc.get_unique_tokens()]
        if op == 'freq':
            return doc.frequencies()
        if op == 'meta':
            return doc.get_metacomments()
        if op == 'spine_types':
            return kp.spine_types(doc, ['**kern'])
        if op == 'mono':
            return kp.is_monophonic(doc)
        if op == 'iter':
            return list(doc)
        if op == 'iter_abandoned':
            it = iter(doc)
            return [next(it, None), next(it, None)]          # an iteration that is left half way
        if op == 'iter_overlapping':
            return list(zip(doc, doc))[:6]                   # two iterations of the same document at the same time
        if op == 'next':
            return next(doc)
        if op == 'count':
            return doc.measures_count()
        if op == 'encodings':
            return doc.get_all_tokens_encodings()
        if op == 'header_nodes':
            return [t.encoding for t in doc.get_header_nodes()]
        if op == 'spine_ids':
            return doc.get_spine_ids()
        if op == 'graph':
            with tempfile.TemporaryDirectory() as d:
                p = os.path.join(d, 'g.dot')
                kp.graph(doc, p)
                return len(open(p).read().split('\n'))
    except Exception as e:
        return 'EXC:' + type(e).__name__


@contract(None, props=['C14'], bounded=BOUND + '; sequences of <= 12 read-only operations including raising ones')
class read_only_api_is_pure:
    def inputs(g):
        score, rng = doc_inputs(g, hidden_bars=True)
        ops = [rng.choice(READ_OPS) for _ in range(rng.randint(1, 12))]
        return {'score': score, 'ops': ops, 'seed': rng.randrange(1 << 20)}

    def post_document_and_constants_unchanged(score, ops, seed):
        doc, _ = kp.loads(score.text())
        before = deep_snapshot(doc)
        rng = random.Random(seed)
        for op in ops:
            run_op(doc, op, rng)
        return deep_snapshot(doc) == before

    def post_same_results_as_fresh_import(score, ops, seed):
        doc, _ = kp.loads(score.text())
        rng = random.Random(seed)
        for op in ops:
            run_op(doc, op, rng)
        fresh, _ = kp.loads(score.text())
        for op in READ_OPS:
            if op == 'graph':
                continue
            r1, r2 = random.Random(seed + 1), random.Random(seed + 1)
            if run_op(doc, op, r1) != run_op(fresh, op, r2):
                return False
        return True


@contract(None, props=['C04', 'C05', 'C13', 'C14'], bounded=BOUND + '; 2..5 requests served by one Exporter object (export_string with random options, get_spine_types)')
class exporter_object_history_independent:
    """An Exporter object that serves several requests answers each of them as a fresh Exporter would (the public API builds a
    fresh one per call, Exporter.get_spine_types and callers that keep the object do not): whatever an exporter remembers between
    requests must not change a later answer."""
    def inputs(g):
        score, rng = doc_inputs(g)
        other = gen_score(rng)
        reqs = []
        for _ in range(rng.randint(2, 5)):
            kind = rng.choice(['export', 'export', 'export', 'spine_types'])
            inc = rng.choice([None, None, set(rng.sample(list(TokenCategory), rng.randint(1, 8))) | {TokenCategory.HEADER}])
            exc = rng.choice([None, None, set(rng.sample(list(TokenCategory), rng.randint(1, 3)))])
            reqs.append({'kind': kind, 'doc': rng.choice([0, 0, 1]), 'include': inc, 'exclude': exc, 'encoding': rng.choice(list(kp.Encoding)),
                         'spine_types': rng.choice([None, None, ['**kern'], ['**kern', '**text']])})
        return {'score': score, 'other': other, 'requests': reqs}

    def post_each_request_as_on_a_fresh_exporter(score, other, requests):
        from kernpy.core.generic import Generic
        docs = [kp.loads(score.text())[0], kp.loads(other.text())[0]]

        def serve(exporter, r):
            try:
                if r['kind'] == 'spine_types':
                    return exporter.get_spine_types(docs[r['doc']], r['spine_types'])
                kw = {k: r[k] for k in ('include', 'exclude', 'spine_types') if r[k] is not None}
                return exporter.export_string(docs[r['doc']], Generic.parse_options_to_ExportOptions(kern_type=r['encoding'], **kw))
            except Exception as e:
                return 'EXC:' + type(e).__name__
        shared = kp.Exporter()
        for r in requests:
            if serve(shared, r) != serve(kp.Exporter(), r):
                return False
        return True


# ================================================================================================================ C15
@contract(None, props=['C15'], bounded=BOUND + '; 40 intervals x 2 directions; core class = single notes without explicit accidentals')
class transposed_document_moves_pitches_only:
    def inputs(g):
        score, rng = doc_inputs(g, plain=False, chords=False, accidentals=False, hidden_bars=True)
        return {'score': score, 'interval': rng.choice(kp.AVAILABLE_INTERVALS), 'direction': rng.choice(['up', 'down'])}

    def requires(score):
        # claimed core: no explicit accidentals, no chords (the other classes are the known findings below)
        return all(c.kind != 'chord' and all(n.acc is None for n in c.notes) for r in score.grid_rows() for c in r.cells)

    def post_pitches_moved_everything_else_kept(score, interval, direction):
        doc, _ = kp.loads(score.text())
        try:
            tdoc = doc.to_transposed(interval, direction)
        except KeyError:
            return True        # some pitch is not spellable (class 22)
        out = lines_of(kp.dumps(tdoc, encoding=kp.Encoding.eKern))

        def cell(c):
            if c.kind == 'note':
                n = c.notes[0]
                t = kp.transpose(n.pitch, kp.IntervalsByName[interval], direction=direction)
                decos = sorted(set(n.decos))
                return '@'.join(n.dur + [t]) + ('·' + '·'.join(decos) if decos else '')
            return c.expected_ekern()
        return out == expected_lines(score, 'e', cell)

    def post_round_trip_restores(score, interval, direction):
        doc, _ = kp.loads(score.text())
        other = 'down' if direction == 'up' else 'up'
        try:
            back = doc.to_transposed(interval, direction).to_transposed(interval, other)
        except KeyError:
            return True
        fresh, _ = kp.loads(score.text())
        return kp.dumps(back) == kp.dumps(fresh)


@contract(None, props=[], bounded=BOUND, name='transposition_leaves_source_unchanged')
class transposition_leaves_source_unchanged:
    def inputs(g):
        score, rng = doc_inputs(g)
        return {'score': score, 'interval': rng.choice(kp.AVAILABLE_INTERVALS), 'direction': rng.choice(['up', 'down'])}

    def post_source_export_unchanged(score, interval, direction):
        doc, _ = kp.loads(score.text())
        before = kp.dumps(doc)
        try:
            doc.to_transposed(interval, direction)
        except KeyError:
            pass
        return kp.dumps(doc) == before


# ================================================================================================================ C18
@contract(None, props=['C18'], bounded='the cell corpus (every grammar alternative, free text) and each of its cells with a character outside the kern alphabet '
                                        'inserted before, inside or after it; the seven non-kern importer classes')
class non_kern_cells_keep_their_text:
    """C18, against an oracle that does not go through the kern importer: whatever a non-kern spine importer makes of a cell, the token
    carries the text of the cell -- verbatim, or (for a barline) without the measure number and the invisible mark.  A cell that is
    shared structure plus a foreign character is not shared structure: it must not be shortened to the structure it contains."""
    def inputs(g):
        from contracts.spec_tokens import CELL_CORPUS
        rng = g.seeded_rng('cell.seed')
        cell = rng.choice([c for c in CELL_CORPUS if c])
        how = rng.choice(['as is', 'as is', 'after', 'before', 'inside'])
        ch = rng.choice(['ü', '€', 'ß', 'þ', '¿'])
        if how == 'after':
            cell = cell + ch
        elif how == 'before':
            cell = ch + cell
        elif how == 'inside':
            cell = cell[:1] + ch + cell[1:]
        return {'cell': cell, 'importer': rng.choice(['TextSpineImporter', 'DynamSpineImporter', 'DynSpineImporter', 'HarmSpineImporter',
                                                     'MxhmSpineImporter', 'FingSpineImporter', 'BasicSpineImporter'])}

    def post_text_kept(cell, importer):
        import re
        cls = getattr(kp, importer, None)
        if cls is None:
            import importlib
            for m in ('text_spine_importer', 'dynam_spine_importer', 'dyn_importer', 'harm_spine_importer', 'mhxm_spine_importer', 'fing_spine_importer', 'basic_spine_importer'):
                cls = getattr(importlib.import_module('kernpy.core.' + m), importer, None)
                if cls is not None:
                    break
        try:
            tok = cls().import_token(cell)
        except Exception:
            return False            # import of a cell never fails
        text = tok.export()
        return text == cell or text == re.sub(r'^(==?)\d*[ab]*-?', r'\1', cell)


OWN_BY_HEADER = {'**text': 'LYRICS', '**dynam': 'DYNAMICS', '**dyn': 'DYNAMICS', '**harm': 'HARMONY', '**mxhm': 'HARMONY', '**fing': 'FINGERING'}


def shifting_record(score):
    """a spine-operator record in which one spine joins while another one splits (the columns to the side shift, their number stays)
    with a non-kern spine among the shifted columns"""
    for r in score.rows:
        if r.kind == 'ops':
            texts = [c.text for c in r.cells]
            if '*^' in texts and '*v' in texts:
                lo, hi = min(texts.index('*^'), texts.index('*v')), max(len(texts) - 1 - texts[::-1].index('*^'), len(texts) - 1 - texts[::-1].index('*v'))
                if any(score.headers[c.spine] != '**kern' for c in r.cells[lo:hi + 1]):
                    return True
    return False


@contract(None, props=['C18', 'C02'], bounded=BOUND + '; scores of mixed spine types (known and unknown headers); up to 30 draws per case to obtain a record in which one '
                                                       'spine joins while another splits, so that a non-kern spine changes its column while the number of columns stays')
class non_kern_spines_in_documents:
    """C18 at document level (C02: the cell belongs to the spine it descends from, not to the column it stands in): in a well-formed
    score every cell of a lyrics / dynamics / harmony / fingering / unknown spine that is not shared structure is imported -- without
    any error -- as a token with the verbatim text and that spine type's own category, wherever the spine moves."""
    def inputs(g):
        rng = g.seeded_rng('doc.seed')
        score = None
        for _ in range(30):
            score = gen_score(rng, spines=rng.choice([3, 4, 4]), unknown_types=True, nested=False)
            if shifting_record(score):
                break
        return {'score': score}

    def post_own_category_wherever_the_spine_moves(score):
        doc, errs = kp.loads(score.text())
        if len(errs) != 0:
            return False
        for ri, r in enumerate(score.rows):
            if r.kind != 'data':
                continue
            nodes = doc.tree.stages[ri + 1]
            if len(nodes) != len(r.cells):
                return False
            for n, c in zip(nodes, r.cells):
                h = score.headers[c.spine]
                if h == '**kern' or c.kind != 'text':
                    continue
                want = OWN_BY_HEADER.get(h, 'OTHER')
                if n.token.encoding != c.text or n.token.category.name != want or n.header_node.token.encoding != h:
                    return False
        return True


# ================================================================================================================ C20
@contract(None, props=['C20'], bounded=BOUND + '; LF / CRLF line ends, with / without final newline, non-ASCII lyrics; single-file and directory modes')
class file_and_cli_paths_equal_api:
    def inputs(g):
        score, rng = doc_inputs(g)
        others = [gen_score(rng, kern_only=True, comments=False).text() for _ in range(3)]
        return {'score': score, 'others': others, 'newline': rng.choice(['\n', '\r\n']), 'final': rng.random() < 0.7, 'mode': rng.choice(['single', 'dir', 'recursive']),
                'opts': rng.choice([{}, {'encoding': kp.Encoding.eKern}, {'include': {TokenCategory.CORE, TokenCategory.STRUCTURAL}}, {'spine_ids': [0]}])}

    def post_load_equals_loads(score, newline, final):
        text = score.text(newline, final)
        with tempfile.TemporaryDirectory() as d:
            p = os.path.join(d, 'a.krn')
            with open(p, 'w', encoding='utf-8', newline='') as f:
                f.write(text)
            d1, e1 = kp.load(p)
        d2, e2 = kp.loads(text)
        return kp.dumps(d1) == kp.dumps(d2) and len(e1) == len(e2) and [t.encoding for t in d1.get_all_tokens()] == [t.encoding for t in d2.get_all_tokens()]

    def post_a_path_loaded_again_gives_the_current_text(score, others):
        # the file path is a name, not the content: after the file was rewritten (by hand or by kp.dump) a second load of the same path
        # is the import of the text that is there now
        with tempfile.TemporaryDirectory() as d:
            p = os.path.join(d, 'a.krn')
            with open(p, 'w', encoding='utf-8') as f:
                f.write(score.text())
            first, _ = kp.load(p)
            with open(p, 'w', encoding='utf-8') as f:
                f.write(others[0])
            second, e2 = kp.load(p)
            want, _ = kp.loads(others[0])
            if kp.dumps(second) != kp.dumps(want):
                return False
            kp.dump(first, p)
            third, _ = kp.load(p)
            again, _ = kp.loads(kp.dumps(first))
        return kp.dumps(third) == kp.dumps(again)

    def post_dump_writes_dumps(score, opts):
        doc, _ = kp.loads(score.text())
        with tempfile.TemporaryDirectory() as d:
            p = os.path.join(d, 'missing', 'dir', 'out.krn')
            kp.dump(doc, p, **opts)
            with open(p, 'r', encoding='utf-8', newline='') as f:
                written = f.read()
        return written == kp.dumps(doc, **opts)

    def post_converters_equal_api_and_round_trip(score, mode):
        if any(h != '**kern' for h in score.headers[:1]):
            return True
        text = score.text()
        doc, errs = kp.loads(text)
        want = kp.dumps(doc, spine_types=['**kern'], include=kp.BEKERN_CATEGORIES, encoding=kp.Encoding.eKern)
        with tempfile.TemporaryDirectory() as d:
            sub = os.path.join(d, 'sub') if mode == 'recursive' else d
            os.makedirs(sub, exist_ok=True)
            src = os.path.join(sub, 'a.krn')
            with open(src, 'w', encoding='utf-8') as f:
                f.write(text)
            target = src if mode == 'single' else d
            args = [sys.executable, '-m', 'kernpy', '--kern2ekern', '--input_path', target, '--verbose', '0'] + (['-r'] if mode == 'recursive' else [])
            env = dict(os.environ)
            env['PYTHONPATH'] = os.environ.get('KERNPY_REPO', '/repo') + os.pathsep + env.get('PYTHONPATH', '')
            subprocess.run(args, capture_output=True, env=env, timeout=120)
            ek = os.path.join(sub, 'a.ekrn')
            if not os.path.exists(ek):
                return False
            got = open(ek, encoding='utf-8').read()
            if got != want:
                return False
            # ekern -> kern -> ekern
            subprocess.run([sys.executable, '-m', 'kernpy', '--ekern2kern', '--input_path', ek, '--output_path', os.path.join(sub, 'b.krn'), '--verbose', '0'],
                           capture_output=True, env=env, timeout=120)
            kern = open(os.path.join(sub, 'b.krn'), encoding='utf-8').read()
            if kern != kp.get_kern_from_ekern(got):
                return False
            d2, e2 = kp.loads(kern)
            again = kp.dumps(d2, spine_types=['**kern'], include=kp.BEKERN_CATEGORIES, encoding=kp.Encoding.eKern)
            if again != got:
                return False
            # an ekern file without a final newline goes through the converter like its text through the API
            nf = os.path.join(sub, 'c.ekrn')
            with open(nf, 'w', encoding='utf-8', newline='') as f:
                f.write(got.rstrip('\n'))
            kp.ekern_to_krn(nf, os.path.join(sub, 'c.krn'))
            return open(os.path.join(sub, 'c.krn'), encoding='utf-8', newline='').read() == kp.get_kern_from_ekern(got.rstrip('\n'))


    def post_directory_runs_convert_every_file(score, others, mode):
        """directory invocations: every *.krn / *.kern file of the directory (of the whole tree with -r, files of equal name in
        different directories included) gets its own .ekrn next to it, equal to what the API produces for that file; nothing else"""
        if mode == 'single' or score.headers[0] != '**kern':
            return True
        texts = [score.text()] + list(others)
        layout = {'a.krn': texts[0], 'b.kern': texts[1], 'notes.txt': 'not a score', os.path.join('op1', 'a.krn'): texts[2],
                  os.path.join('op1', 'trio', 'a.krn'): texts[3], os.path.join('op2', 'c.krn'): texts[1]}
        env = dict(os.environ)
        env['PYTHONPATH'] = os.environ.get('KERNPY_REPO', '/repo') + os.pathsep + env.get('PYTHONPATH', '')
        with tempfile.TemporaryDirectory() as d:
            for rel, text in layout.items():
                os.makedirs(os.path.dirname(os.path.join(d, rel)), exist_ok=True)
                with open(os.path.join(d, rel), 'w', encoding='utf-8') as f:
                    f.write(text)
            rec = ['-r'] if mode == 'recursive' else []
            subprocess.run([sys.executable, '-m', 'kernpy', '--kern2ekern', '--input_path', d, '--verbose', '0'] + rec, capture_output=True, env=env, timeout=300)
            for rel, text in layout.items():
                if rel == 'notes.txt':
                    continue
                out = os.path.splitext(os.path.join(d, rel))[0] + '.ekrn'
                expected = mode == 'recursive' or os.sep not in rel
                if os.path.exists(out) != expected:
                    return False
                if expected:
                    doc, _ = kp.loads(text)
                    if open(out, encoding='utf-8').read() != kp.dumps(doc, spine_types=['**kern'], include=kp.BEKERN_CATEGORIES, encoding=kp.Encoding.eKern):
                        return False
            if os.path.exists(os.path.join(d, 'notes.ekrn')):
                return False
            # the way back, again over the directory: every .ekrn gets its .krn = what the API makes of its text
            ekerns = {}
            for root, _, names in os.walk(d):
                for n in names:
                    if n.endswith('.ekrn'):
                        ekerns[os.path.join(root, n)] = open(os.path.join(root, n), encoding='utf-8').read()
                    if n.endswith('.krn') or n.endswith('.kern'):
                        os.remove(os.path.join(root, n))
            subprocess.run([sys.executable, '-m', 'kernpy', '--ekern2kern', '--input_path', d, '--verbose', '0'] + rec, capture_output=True, env=env, timeout=300)
            for path, ek in ekerns.items():
                back = path[:-5] + '.krn'
                expected = mode == 'recursive' or os.path.dirname(path) == d
                if os.path.exists(back) != expected:
                    return False
                if expected and open(back, encoding='utf-8').read() != kp.get_kern_from_ekern(ek):
                    return False
        return True


# ---- C15: the classes the property itself names as tracked findings ----------------------------------------------------------------------
@contract(None, props=['C15'], bounded='three recorded scores (known findings of C15)')
class transposition_known_classes:
    """Known findings (C15, named by the property): (1) the source document is changed by to_transposed (Document.clone copies
    the tree object shallowly, the nodes are shared); (2) notes with an explicit accidental keep the accidental untransposed;
    (3) chord notes are not transposed."""
    def inputs(g):
        return {'case': g.choice('case', ['source-changed', 'accidental', 'chord'])}

    def post_source_unchanged(case):
        if case != 'source-changed':
            return True
        doc, _ = kp.loads('**kern\n4c\n4d\n*-\n')
        before = kp.dumps(doc)
        doc.to_transposed('M2', 'up')
        return kp.dumps(doc) == before

    def post_accidentals_transposed(case):
        if case != 'accidental':
            return True
        doc, _ = kp.loads('**kern\n4c#\n*-\n')
        return kp.dumps(doc.to_transposed('d2', 'up')) == '**kern\n4d-\n*-\n'

    def post_chords_transposed(case):
        if case != 'chord':
            return True
        doc, _ = kp.loads('**kern\n4c 4e\n*-\n')
        return kp.dumps(doc.to_transposed('M2', 'up')) == '**kern\n4d 4f#\n*-\n'


# ================================================================================================================ C08
def walk_grid(text):
    """minimal independent reader of a **kern-only Humdrum text: yields per data cell (cell text, signatures in force) and checks
    the grid shape; returns (ok, [(cell, clef, keysig, timesig)], problems)"""
    lines = [l for l in text.split('\n') if l != '' and not l.startswith('!!')]
    problems = []
    if not lines or not lines[0].startswith('**'):
        return False, [], ['first line is not a header line']
    width = len(lines[0].split('\t'))
    sigs = [dict(clef=None, key=None, time=None) for _ in range(width)]
    notes = []
    terminated = False
    for l in lines[1:]:
        cells = l.split('\t')
        if terminated:
            problems.append('content after the terminator row')
            break
        if len(cells) != width:
            problems.append(f'line {l!r} has {len(cells)} cells, {width} expected')
            return False, notes, problems
        if all(c.startswith('*') for c in cells) and any(c in ('*^', '*v', '*-', '*+') for c in cells):
            new = []
            i = 0
            while i < len(cells):
                c = cells[i]
                if c == '*^':
                    new += [dict(sigs[i]), dict(sigs[i])]
                elif c == '*v':
                    new.append(dict(sigs[i]))
                    while i + 1 < len(cells) and cells[i + 1] == '*v':
                        i += 1
                elif c == '*-':
                    pass
                else:
                    new.append(sigs[i])
                i += 1
            if all(c == '*-' for c in cells):
                terminated = True
            sigs = new
            width = len(sigs)
            continue
        for i, c in enumerate(cells):
            if c.startswith('*clef'):
                sigs[i]['clef'] = c
            elif c.startswith('*k['):
                sigs[i]['key'] = c
            elif c.startswith('*M') and not c.startswith('*MM'):
                sigs[i]['time'] = c
            elif not c.startswith('*') and not c.startswith('=') and not c.startswith('!') and c != '.':
                notes.append((c, sigs[i]['clef'], sigs[i]['key'], sigs[i]['time']))
    if not terminated:
        problems.append('spines are not terminated')
    return not problems, notes, problems


@contract(None, props=['C08'], bounded=BOUND + '; **kern-only, signatures before the first measure, splits re-joined before the next barline; every measure range')
class excerpt_is_self_contained:
    """C08 (claimed core class): every measure-range export is a well-formed Humdrum document that re-imports without errors, and
    every note in it is governed by the same clef, key signature and time signature as in the full score."""
    def inputs(g):
        score, rng = kern_score(g, comments=True, signatures_first=True, mid_signatures=False, hidden_bars=True)
        M = len(measures_of(score))
        a = rng.randint(1, M)
        return {'score': score, 'a': a, 'b': rng.randint(a, M)}

    def requires(score, a, b):
        # core class: the excerpt does not start inside a split (every measure start row has one cell per spine)
        starts = measures_of(score)
        # (one cell per spine that is still alive: a spine may have ended earlier)
        cells = score.rows[starts[a - 1]].cells
        return len({c.spine for c in cells}) == len(cells)

    def post_well_formed_and_reimports(score, a, b):
        doc, _ = kp.loads(score.text())
        ex = kp.dumps(doc, from_measure=a, to_measure=b, spine_types=['**kern'])
        ok, notes, problems = walk_grid(ex)
        if not ok:
            return False
        d2, errs = kp.loads(ex)
        return errs == []

    def post_same_governing_signatures(score, a, b):
        doc, _ = kp.loads(score.text())
        full = kp.dumps(doc, spine_types=['**kern'])
        ex = kp.dumps(doc, from_measure=a, to_measure=b, spine_types=['**kern'])
        ok1, fnotes, _ = walk_grid(full)
        ok2, enotes, _ = walk_grid(ex)
        if not (ok1 and ok2):
            return False
        # the notes of the excerpt are a contiguous run of the notes of the full export, with the same governing signatures
        n = len(enotes)
        if n == 0:
            return True
        for k in range(len(fnotes) - n + 1):
            if fnotes[k:k + n] == enotes:
                return True
        return False


def signature_kinds_in_force(score, cell):
    """kinds of signatures (clef, key signature, meter, meter symbol) written above the cell on its own spine path"""
    kinds = set()
    pos = cell.parent
    while pos is not None:
        c = [x for x in score.rows[pos[0]].cells if x.col == pos[1]][0]
        t = c.text
        for k, prefix in (('clef', '*clef'), ('key', '*k['), ('met', '*met'), ('time', '*M')):
            if t.startswith(prefix) and not t.startswith('*MM') and not (k == 'time' and t.startswith('*met')):
                kinds.add(k)
        pos = getattr(c, 'parent', None)
    return kinds


def rng_spines(g):
    return g.choice('spines', [2, 2, 3])


@contract(None, props=['C08'], bounded=BOUND + '; **kern-only, with signature changes in the middle of the score; measure ranges that contain no signature change')
class excerpt_between_signature_changes:
    """C08, explored class 'mid-score signature changes', the part that holds: an excerpt that contains no signature change itself
    (the changes lie before it or after it) is well formed, re-imports, and its notes are governed as in the full score.  (Excerpts
    that contain a change: known finding, see excerpt_known_classes.)"""
    def inputs(g):
        score, rng = kern_score(g, comments=True, signatures_first=True, mid_signatures=True, quiet=True, spines=rng_spines(g))
        M = len(measures_of(score))
        a = rng.randint(1, M)
        return {'score': score, 'a': a, 'b': rng.randint(a, M)}

    def requires(score, a, b):
        starts = measures_of(score)
        first = starts[a - 1]
        last = (starts[b] - 1) if b < len(starts) else len(score.rows) - 1
        inside = [ri for ri, r in enumerate(score.rows) if r.kind == 'interp' and first <= ri <= last and ri > starts[0]]
        if len({c.spine for c in score.rows[first].cells}) != len(score.rows[first].cells) or inside:
            return False
        # the spines have signatures of the same kinds in force at the start of the excerpt (a clef written in one sub-spine only
        # leaves the spines with different sets: known finding 'unequal signature sets', see excerpt_known_classes)
        return len({frozenset(signature_kinds_in_force(score, c)) for c in score.rows[first].cells}) == 1

    def post_well_formed_and_reimports(score, a, b):
        return excerpt_is_self_contained.post_well_formed_and_reimports(score, a, b)

    def post_same_governing_signatures(score, a, b):
        return excerpt_is_self_contained.post_same_governing_signatures(score, a, b)


@contract(None, props=['C08'], bounded='recorded scores of the classes the property names as tracked findings')
class excerpt_known_classes:
    """Known findings (C08, named by the property): an excerpt that starts inside a split repeats the split row and its
    signature rows have the wrong width; a signature changed in the middle of the score."""
    def inputs(g):
        return {'case': g.choice('case', ['starts-inside-split', 'change-inside-null-spine', 'unequal-signature-sets'])}

    def post_unequal_signature_sets(case):
        # a clef written in one sub-spine only: after the join that spine has three kinds of signatures in force, the other one two;
        # the recovered header is built row by row for all spines at once and refuses spines with different numbers of rows
        if case != 'unequal-signature-sets':
            return True
        text = '**kern\t**kern\n*k[f#]\t*k[f#]\n*M4/4\t*M4/4\n*^\t*\n*clefF4\t*\t*\n4GG\t4g\t4c\n*v\t*v\t*\n=2\t=2\n4G\t4d\n*-\t*-\n'
        doc, _ = kp.loads(text)
        try:
            ex = kp.dumps(doc, from_measure=2, to_measure=2, spine_types=['**kern'])
        except Exception:
            return False
        return walk_grid(ex)[0]

    def post_change_inside_excerpt(case):
        # a spine that holds only null tokens from the start of the excerpt to a clef change inside it: the clef in force is taken
        # for restated (null tokens do not stop the look-ahead) and the recovered clef row has one cell instead of two
        if case != 'change-inside-null-spine':
            return True
        text = '**kern\t**kern\n*clefF4\t*clefG2\n=1\t=1\n4C\t.\n=2\t=2\n*clefG2\t*clefF4\n4d\t4D\n*-\t*-\n'
        doc, _ = kp.loads(text)
        ex = kp.dumps(doc, from_measure=1, to_measure=2, spine_types=['**kern'])
        return walk_grid(ex)[0]

    def post_starts_inside_split(case):
        if case != 'starts-inside-split':
            return True
        text = '**kern\t**kern\n*clefG2\t*clefF4\n*\t*^\n4c\t4d\t4e\n*\t*v\t*v\n=\t=\n4f\t4g\n*-\t*-\n'
        doc, _ = kp.loads(text)
        ex = kp.dumps(doc, from_measure=1, to_measure=1, spine_types=['**kern'])
        return walk_grid(ex)[0]
