"""Specification vocabulary for staff positions (C10)."""
from pyvc.ghost import ite, conj, disj, implies
from contracts.spec_pitch import LETTERS_UP, LETTERS_LO, spell

# Bottom-line pitch (letter index C..B = 0..6, octave) of the seven supported clefs.  The property is stated relative to
# "the clef's bottom-line pitch"; the values are the ones pinned by the repository's own test suite (test/test_gkern.py:
# test_g_clef_scale, test_f3/f4_clef_scale, test_c1..c4_clef_scale) and are checked as data invariants.
BOTTOM = {
    'GClef': (2, 4),     # E4
    'F3Clef': (6, 3),    # B3
    'F4Clef': (4, 2),    # G2
    'C1Clef': (0, 3),    # C3
    'C2Clef': (5, 2),    # A2
    'C3Clef': (6, 2),    # B2
    'C4Clef': (1, 2),    # D2
}

CLEF_OF = {('G', 1): 'GClef', ('G', 2): 'GClef', ('G', 3): 'GClef', ('G', 4): 'GClef', ('G', 5): 'GClef',
           ('F', 3): 'F3Clef', ('F', 4): 'F4Clef',
           ('C', 1): 'C1Clef', ('C', 2): 'C2Clef', ('C', 3): 'C3Clef', ('C', 4): 'C4Clef'}


def staff_steps(L, o, Lb, ob):
    """diatonic steps of (L, o) above the bottom line (Lb, ob)"""
    return 7 * (o - ob) + (L - Lb)


def spell_by_distance(d, a):
    """Humdrum pitch d diatonic steps above middle C ('c'), with accidental a"""
    for k in range(7):
        if d % 7 == k:
            return spell(k, a, 4 + d // 7)
    return None


def agnostic_spelling(L, a, o, Lb, ob):
    """C10: the Humdrum pitch occupying, under a G2 clef (bottom line E4 = 'e', two steps above 'c'), the line or space
    that (L, o) occupies under a clef with bottom line (Lb, ob); the accidental is carried over."""
    return spell_by_distance(staff_steps(L, o, Lb, ob) + 2, a)


def agn_text(clef_name, s):
    """the agnostic spelling of the pitch letters s under the clef class clef_name.  In proofs this is an uninterpreted
    function per clef (its meaning on spellings is established by the lemma callback_meaning on the real converter); natively
    it is computed from the specification functions."""
    from pyvc.ghost import symbolic_run, uf_str
    from contracts.spec_pitch import parse_spell
    if clef_name is None:
        return s            # no clef: the converter raises before producing anything (see the raises clause)
    if symbolic_run():
        return uf_str('AGN_' + clef_name, s)
    L, a, o = parse_spell(s)
    Lb, ob = BOTTOM[clef_name]
    return agnostic_spelling(L, a, o, Lb, ob)
