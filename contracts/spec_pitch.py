"""Specification vocabulary for pitches and intervals (DESIGN section 3) -- written from the property statements,
independent of kernpy's tables.  Plain Python: runs natively in replays, symbolically in proofs."""
from pyvc.ghost import ite, conj, disj, implies

LETTERS_UP = 'CDEFGAB'
LETTERS_LO = 'cdefgab'
B40 = [2, 8, 14, 19, 25, 31, 37]          # base-40 pitch class of the natural letters C..B
SEMI = [0, 2, 4, 5, 7, 9, 11]             # semitones above C of the natural letters


def name_LA(L, a):
    """Agnostic pitch name: letter, then a sharps ('+') or -a flats ('-')."""
    return LETTERS_UP[L] + '+' * max(a, 0) + '-' * max(-a, 0)


def spell(L, a, o):
    """Humdrum spelling: letter repeated o-3 times in lower case for o >= 4, else 4-o times in upper case; then
    '#' * a or '-' * -a."""
    if o >= 4:
        body = LETTERS_LO[L] * (o - 3)
    else:
        body = LETTERS_UP[L] * (4 - o)
    return body + '#' * max(a, 0) + '-' * max(-a, 0)


def letter_of(p):
    return LETTERS_UP.index(p.name[0])


def alt_of(p):
    return p.name.count('+') - p.name.count('-')


def canonical_name(name, amax):
    """name is letter + k sharps or k flats with k <= amax (the agnostic spelling)."""
    if len(name) == 0:
        return False
    first = name[0]
    if first not in LETTERS_UP:
        return False
    a = name.count('+') - name.count('-')
    return conj(name == name_LA(LETTERS_UP.index(first), a), -amax <= a, a <= amax)


def b40_of(L, a, o):
    return 40 * o + B40[L] + a


def decode40(v):
    """(letter, alteration) of the base-40 pitch class v (0..39) with at most two accidentals; None if there is none
    (22 is the hole between F## and Gbb; 5, 11, 28, 34 would need three accidentals)."""
    for L in range(7):
        for a in (-2, -1, 0, 1, 2):
            if v == B40[L] + a:
                return (L, a)
    return None


# ---- intervals: the independent letter / semitone model ------------------------------------------------------
PERFECT = (1, 4, 5)
QUAL_PERFECT = {'dd': -2, 'd': -1, 'P': 0, 'A': 1, 'AA': 2}
QUAL_MAJOR = {'dd': -3, 'd': -2, 'm': -1, 'M': 0, 'A': 1, 'AA': 2}


def interval_names():
    out = []
    for n in range(1, 8):
        quals = QUAL_PERFECT if n in PERFECT else QUAL_MAJOR
        for q in quals:
            out.append(q + str(n))
    out.append('octave')
    return out


def interval_model(name):
    """(diatonic steps, semitones, base-40 size) of a named interval."""
    if name == 'octave':
        return (7, 12, 40)
    n = int(name[-1])
    q = name[:-1]
    off = QUAL_PERFECT[q] if n in PERFECT else QUAL_MAJOR[q]
    dia = n - 1
    return (dia, SEMI[dia] + off, B40[dia] - 2 + off)


# ---- integer model of base-40 transposition ---------------------------------------------------------------------
def class_letter(pc):
    """letter index of base-40 class pc (0..39, pc != 22); three-flat classes 5, 11, 28, 34 belong to D, E, A, B."""
    return ite(pc <= 4, 0, ite(pc <= 10, 1, ite(pc <= 16, 2, ite(pc <= 21, 3, ite(pc <= 27, 4, ite(pc <= 33, 5, 6))))))


def transposed_LAO(L, a, o, delta):
    """(letter, alteration, octave) of the pitch (L, a, o) moved by delta base-40 units; valid when the class is not 22."""
    c = b40_of(L, a, o) + delta
    pc = c % 40
    L2 = class_letter(pc)
    return (L2, pc - B40[L2], c // 40)


def signed(delta, direction):
    return ite(direction == 'up', delta, -delta)


# ---- Humdrum spelling <-> (L, a, o) ----------------------------------------------------------------------------
def parse_spell(enc):
    """(L, a, o) of a Humdrum spelling: letter repeated k times (lower: octave 3 + k, upper: 4 - k), then accidentals."""
    first = enc[0]
    k = enc.count(first)
    a = enc.count('#') - enc.count('-')
    if first in LETTERS_LO:
        return (LETTERS_LO.index(first), a, 3 + k)
    return (LETTERS_UP.index(first), a, 4 - k)


def is_spelling(enc, amax):
    if len(enc) == 0:
        return False
    first = enc[0]
    if first not in LETTERS_LO and first not in LETTERS_UP:
        return False
    L, a, o = parse_spell(enc)
    return conj(enc == spell(L, a, o), -amax <= a, a <= amax)
