"""C05 / C06 / C13 -- the per-cell export pipeline: spine gate, category gate, placeholder, tokenizer (DESIGN 4.5, 4.6, 4.13)."""
from pyvc.contract import contract
from pyvc.ghost import ite, conj, disj, implies, iff, uf_bool, uf_str, symbolic_run
from contracts.spec_cat import closure, is_desc
from contracts.spec_tokens import export_spec, plain, basic_spec, is_note_like, no_decorations
from contracts.shapes import (mk_any_token, mk_simple_like, mk_header_token, mk_node, mk_options, mk_tree, TOKEN_KINDS, HEADER_UNIVERSE)
from contracts.c04 import aekern_text, clef_class_name, PREFIX_OF, needs_conversion
from contracts.spec_staff import agn_text
from kernpy.core.tokens import TokenCategory
from kernpy.core.tokenizers import Encoding
from kernpy.core.exporter import Exporter, ExportOptions

EX = 'kernpy.core.exporter.'
PROPS = ['C05', 'C06', 'C13']


# ------------------------------------------------------------------------------------------------ specification of one cell
def header_of(node):
    """the header token that governs the node: its own token for the header row, else the header of its spine"""
    if type(node.token).__name__ == 'HeaderToken':
        return node.token
    if node.header_node is not None:
        return node.header_node.token
    return None


def spine_gate(node, options):
    """C06: a cell is exported iff its spine is selected by type and (when ids are given) by id"""
    h = header_of(node)
    if h is None:
        return False
    return conj(h.encoding in options.spine_types, True if options.spine_ids is None else (h.spine_id in options.spine_ids))


def placeholder(node):
    c = node.token.category
    return ite(disj(c == TokenCategory.SIGNATURES, is_desc(TokenCategory.SIGNATURES, c)), '*', '.')


def is_complex(token):
    return type(token).__name__ in ('NoteRestToken', 'CompoundToken')


def category_gate(node, options):
    """C05: hidden tokens and unselected simple tokens become placeholders; notes are filtered part by part instead"""
    return conj(not_hidden(node.token), disj(is_complex(node.token), node.token.category in set(options.token_categories)))


def not_hidden(token):
    return token.hidden == False


def cell_text(node, options):
    """C04/C13: the text of a selected cell in the chosen encoding"""
    token = node.token
    keep = lambda c: c in set(options.token_categories)
    enc = options.kern_type.name
    clef_node = node.last_signature_nodes.nodes.get('ClefToken')
    clef = None if clef_node is None else clef_class_name(clef_node.token.encoding)
    if type(token).__name__ == 'HeaderToken':
        return '**' + PREFIX_OF[enc] + token.encoding[2:]
    if enc == 'eKern':
        return export_spec(token, keep, None)
    if enc == 'normalizedKern':
        return plain(token, export_spec(token, keep, None))
    if enc == 'bEkern':
        return basic_spec(token, keep)
    if enc == 'bKern':
        return plain(token, basic_spec(token, keep), False)
    text = export_spec(token, keep, lambda s: agn_text(clef, s))
    if enc == 'agnosticExtendedKern':
        return text
    return plain(token, text)


# ------------------------------------------------------------------------------------------------ inputs
CELL_KINDS = ['SimpleToken', 'BarToken', 'note', 'chord', 'compound', 'header']     # one representative per export behaviour
                                                                                      # (every class is covered in C04's tokenizers)


def mk_clef_token(g):
    from kernpy.core.tokens import ClefToken
    # the clef is only forwarded here (create_clef is verified for every sign, line and octave mark in C10)
    enc = '*clefF' + '^' * g.int('marks_up', 0) + 'v' * g.int('marks_down', 0) + '4'
    return g.new(ClefToken, {'encoding': enc, 'category': TokenCategory.CLEF, 'hidden': False}, (enc,))


def node_inputs(g, kinds=None):
    kind = g.choice('token', kinds or CELL_KINDS)
    header = mk_node(g, mk_header_token(g, 'hdr'), None, None, 1)
    has_clef = g.choice('has_clef', [True, False])
    clef_node = mk_node(g, mk_clef_token(g), header, None, 2) if has_clef else None
    if kind == 'header':
        return header, kind
    return mk_node(g, mk_any_token(g, kind), header, clef_node), kind


@contract(EX + 'Exporter._is_token_in_a_signature_row', props=PROPS)
class is_signature_row:
    def inputs(g):
        node, kind = node_inputs(g, ['SimpleToken'])
        return {'cls': Exporter, 'node': node}

    modifies = ('self.**',)     # the exporter's own private state (a cache) is not part of any property

    def post_signature_family(result, node):
        c = node.token.category
        return iff(result, disj(c == TokenCategory.SIGNATURES, is_desc(TokenCategory.SIGNATURES, c)))


@contract(EX + 'Exporter._retrieve_empty_token', props=PROPS)
class retrieve_empty_token:
    def inputs(g):
        shape = g.choice('shape', ['node', 'none', 'no-token'])
        node, kind = node_inputs(g, ['SimpleToken'])
        if shape == 'no-token':
            node = mk_node(g, None, None)
        return {'cls': Exporter, 'node': None if shape == 'none' else node}

    modifies = ('self.**',)     # the exporter's own private state (a cache) is not part of any property

    def post_placeholder(result, node):
        if node is None or node.token is None:
            return result == ''
        return result == placeholder(node)

    def model(node):
        if node is None or node.token is None:
            return ''
        return placeholder(node)


@contract(EX + 'Exporter.compute_header_type', props=PROPS)
class compute_header_type:
    def inputs(g):
        node, kind = node_inputs(g, ['SimpleToken', 'header', 'note'])
        return {'self': g.new(Exporter, {}, ()), 'node': node}

    modifies = ('self.**',)     # the exporter's own private state (a cache) is not part of any property

    def post_header(result, node):
        return result is header_of(node)

    def model(node):
        return header_of(node)


@contract(EX + 'Exporter.export_token', props=PROPS + ['C04', 'C10'])
class export_token:
    """One selected cell: the header rewritten for the encoding, every other token through the tokenizer of the chosen
    encoding with the selected categories and the clef in force for that node."""
    def inputs(g):
        node, kind = node_inputs(g)
        g.assume(kind != 'chord' or node.last_signature_nodes.nodes.get('ClefToken') is not None)
        return {'self': g.new(Exporter, {}, ()), 'node': node, 'options': mk_options(g)}

    modifies = ('self.**',)     # the exporter's own private state (a cache) is not part of any property

    def requires(node, options):
        # basic encodings: C04's domain (the selection keeps a duration / pitch part of every note)
        enc = options.kern_type.name
        from contracts.spec_tokens import keeps_some_pd
        return disj(conj(enc != 'bEkern', enc != 'bKern'), keeps_some_pd(node.token, lambda c: c in set(options.token_categories)))

    def post_cell_text(result, node, options):
        return result == cell_text(node, options)

    def raises(node, options):
        agnostic = disj(options.kern_type.name == 'agnosticExtendedKern', options.kern_type.name == 'agnosticKern')
        return {'ValueError': conj(agnostic, node.last_signature_nodes.nodes.get('ClefToken') is None,
                                   needs_conversion(node.token, lambda c: c in set(options.token_categories)))}

    def model(node, options):
        return cell_text(node, options)


@contract(None, props=['C04', 'C05', 'C13', 'C14'])
class export_token_history:
    """An Exporter object may serve several exports (Exporter.get_spine_types exports with its own options through the same object;
    a caller may keep one exporter): a cell's text must not depend on what the object exported before.  Two consecutive calls on
    one exporter for the same cell and encoding, first with the selection of Exporter.get_spine_types (headers only) or of the default
    export (everything), then with any selection: the second result is the cell text of the second selection.  (The one-call contract starts from a freshly constructed exporter; state keyed by less than the whole
    request shows here.  Longer and mixed histories: the bounded contract exporter_object_history_independent.)"""
    inline = (EX + 'Exporter.export_token',)

    def inputs(g):
        # (the note, the simple token and the header: the three ways a cell text is produced; chords and compound tokens go through
        # the same two calls of the exporter, their tokenizers are under contract in C04)
        node, kind = node_inputs(g, ['note', 'SimpleToken', 'header'])
        enc = g.enum('encoding', Encoding)
        # the earlier request: what Exporter.get_spine_types asks for (headers only), or everything (the default export)
        cats2 = [TokenCategory.HEADER] if g.choice('earlier', ['headers-only', 'everything']) == 'headers-only' else [c for c in TokenCategory]

        def opts(cats):
            # (export_token reads the encoding and the categories only: the spine selection is fixed)
            o = g.new(ExportOptions, {'spine_types': ['**kern'], 'from_measure': None, 'to_measure': None, 'token_categories': cats, 'kern_type': enc,
                                      'instruments': None, 'show_measure_numbers': False, 'spine_ids': None}, None)
            if not hasattr(o, 'fields'):
                o.spine_types, o.from_measure, o.to_measure, o.token_categories, o.kern_type = ['**kern'], None, None, cats, enc
                o.instruments, o.show_measure_numbers, o.spine_ids = None, False, None
            return o
        options, earlier = opts(g.enum_set('cats', TokenCategory)), opts(cats2)
        return {'exporter': g.new(Exporter, {}, ()), 'node': node, 'options': options, 'earlier': earlier}

    def requires(node, options, earlier):
        enc = options.kern_type.name
        from contracts.spec_tokens import keeps_some_pd
        return conj(disj(conj(enc != 'bEkern', enc != 'bKern'), keeps_some_pd(node.token, lambda c: c in set(options.token_categories))),
                    disj(conj(enc != 'bEkern', enc != 'bKern'), keeps_some_pd(node.token, lambda c: c in set(earlier.token_categories))))

    def post_second_export_as_fresh(exporter, node, options, earlier):
        try:
            exporter.export_token(node, earlier)
        except Exception:
            pass            # (outside C04's domain the earlier export may fail: whatever it did, the next one is as on a fresh object)
        try:
            second = exporter.export_token(node, options)
        except ValueError:
            agnostic = disj(options.kern_type.name == 'agnosticExtendedKern', options.kern_type.name == 'agnosticKern')
            return conj(agnostic, node.last_signature_nodes.nodes.get('ClefToken') is None,
                        needs_conversion(node.token, lambda c: c in set(options.token_categories)))
        return second == cell_text(node, options)


# ------------------------------------------------------------------------------------------------ the row loop of export_string
A_ROW = ('abstraction of append_row (verified by contract append_row): whether a cell is appended for a node, and its text, depend on '
         'the node and the options only')


def ROW_GATE(node, options):
    if symbolic_run():
        return uf_bool('row.gate', node.id)
    r = []
    return Exporter().append_row(document=None, node=node, options=options, row=r)


def ROW_CELL(node, options):
    if symbolic_run():
        return uf_str('row.cell', node.id)
    r = []
    Exporter().append_row(document=None, node=node, options=options, row=r)
    return r[0]


@contract(EX + 'Exporter.append_row', props=PROPS, name='append_row_summary', local=True, assumed=A_ROW)
class append_row_summary:
    def model(node, options, row):
        gate = ROW_GATE(node, options)
        if gate:
            row.append(ROW_CELL(node, options))
        return gate


def native_document(g):
    """native runs: a really imported document of the generator"""
    import kernpy as kp
    from contracts.gen_doc import gen_score
    doc, _ = kp.loads(gen_score(g.seeded_rng('doc.seed')).text())
    return doc


@contract(EX + 'Exporter.export_string', props=['C03', 'C05', 'C06'], name='export_string_stage_step')
class export_string_stage_step:
    """One iteration of the row loop of export_string, for an arbitrary stage of an arbitrary tree: the row of the stage is the list of
    the cells of its selected nodes, in the order of the nodes (C06: a projection, nothing reordered, nothing invented); it is added
    to the rows iff it has a cell and not all its cells are placeholders (C03 / C05: lines left with only placeholders are dropped);
    the rows collected before are untouched.  What a cell is: contract append_row."""
    step = 'for stage in range('
    uses = ('append_row_summary',)
    assumes = (A_ROW,)

    def inputs(g):
        if g.symbolic:
            from kernpy.core.document import Document
            tree = mk_tree(g)
            document = g.new(Document, {'tree': tree, 'measure_start_tree_stages': [], 'page_bounding_boxes': {}, 'header_stage': None}, None)
            options = None
        else:
            document = native_document(g)
            tree = document.tree
            options = mk_options(g, Encoding.eKern)      # (what a cell is, in every encoding: contract append_row)
        stage = g.int('stage', 0)
        g.assume(stage < len(tree.stages))
        rows = [[g.str_sym('rows[0][0]', ['**kern', '4c'])]]
        return {'self': g.new(Exporter, {}, ()), 'document': document, 'options': options, 'rows': rows, 'stage': stage, '_before': list(rows)}

    modifies = ('rows', 'self.**')

    def post_row_is_the_projection_of_the_stage(document, options, rows, stage, before):
        want = [ROW_CELL(n, options) for n in document.tree.stages[stage] if ROW_GATE(n, options)]
        kept = conj(len(want) > 0, not all(c in {'.', '*', ''} for c in want))
        if kept:
            if len(rows) != len(before) + 1:
                return False
            return conj(rows[-1] == want, rows[:-1] == before)
        return rows == before

    def post_loop_goes_on(flow):
        return flow == 'next'


def row_prefix(g):
    # the row built so far is only appended to: one arbitrary earlier cell stands for any prefix
    return [g.str_sym('row[0]', ['.', '4c'])]


@contract(EX + 'Exporter.append_row', props=PROPS)
class append_row:
    """Exactly one cell is appended iff the spine gate holds; that cell is the placeholder iff the token is hidden or (not a
    note and its category is not selected), else the tokenized token; nothing else changes."""
    def inputs(g):
        node, kind = node_inputs(g)
        g.assume(kind != 'chord' or node.last_signature_nodes.nodes.get('ClefToken') is not None)
        return {'self': g.new(Exporter, {}, ()), 'document': None, 'node': node, 'options': mk_options(g), 'row': row_prefix(g)}

    modifies = ('row', 'self.**')

    def requires(node, options):
        enc = options.kern_type.name
        from contracts.spec_tokens import keeps_some_pd
        return disj(conj(enc != 'bEkern', enc != 'bKern'), keeps_some_pd(node.token, lambda c: c in set(options.token_categories)))

    def post_spine_gate(result, node, options, row, old):
        if spine_gate(node, options):
            return conj(result == True, len(row) == len(old['row']) + 1, row[:-1] == old['row'])
        return conj(result == False, row == old['row'])

    def post_cell(node, options, row, old):
        if not spine_gate(node, options):
            return True
        if not category_gate(node, options):
            return row[-1] == placeholder(node)
        text = cell_text(node, options)
        return row[-1] == (text if len(text) > 0 else placeholder(node))

    def raises(node, options):
        agnostic = disj(options.kern_type.name == 'agnosticExtendedKern', options.kern_type.name == 'agnosticKern')
        return {'ValueError': conj(spine_gate(node, options), category_gate(node, options), agnostic,
                                   node.last_signature_nodes.nodes.get('ClefToken') is None,
                                   needs_conversion(node.token, lambda c: c in set(options.token_categories)))}


@contract(EX + 'empty_row', props=PROPS + ['C01', 'C03'])
class empty_row:
    """a row is empty iff every cell is one of the three placeholders '.', '*' and '' -- any number of cells, any texts (a bare '!' is
    a local comment cell, not a placeholder)"""
    def inputs(g):
        return {'row': g.seq('row', lambda e: e.str_sym('cell', ['.', '', '*', '4c', '=', '*-', '!', '!x', '**kern']))}

    def post_all_null(result, row):
        return result == (len([c for c in row if not (c in ('.', '', '*'))]) == 0)


# ------------------------------------------------------------------------------------------------ options
from contracts.c11 import selector, as_set, is_bad
from contracts.spec_cat import sel
from pyvc.ghost import members
from kernpy.core.generic import Generic
from kernpy.core.tokens import HEADERS

GEN = 'kernpy.core.generic.Generic.'
OPTION_KEYS = ['spine_types', 'from_measure', 'to_measure', 'kern_type', 'instruments', 'show_measure_numbers', 'spine_ids']


def maybe(g, name, value_builder):
    return None if g.choice(name + '.none', [True, False]) else value_builder()


@contract(EX + 'ExportOptions.default', props=PROPS + ['C14'])
class options_default:
    """fresh option object with fresh collections: all header types, every category, kern encoding, no ranges, no ids"""
    def inputs(g):
        return {'cls': ExportOptions}

    modifies = ()

    def post_defaults(result):
        return conj(result.spine_types == HEADERS, result.spine_types is not HEADERS,
                    set(result.token_categories) == set(members(TokenCategory)), result.from_measure is None, result.to_measure is None,
                    result.kern_type == Encoding.normalizedKern, result.instruments is None, result.show_measure_numbers == False,
                    result.spine_ids is None)


@contract(GEN + 'parse_options_to_ExportOptions', props=PROPS + ['C14', 'C07', 'C08', 'C19'])
class parse_options:
    """Keyword options -> ExportOptions: None leaves the default, any other value is stored as given; the selected categories are
    Clo(include) \\ Clo(exclude).  Nothing passed in is modified (the options object is fresh)."""
    def inputs(g):
        inc = selector(g, 'include')
        exc = g.choice('exclude.shape', ['none', 'set'])
        return {'cls': Generic, 'include': inc, 'exclude': None if exc == 'none' else g.enum_set('exclude', TokenCategory),
                'spine_types': maybe(g, 'spine_types', lambda: g.str_subset('spine_types', ['**kern', '**text', '**silbe'])),
                'from_measure': maybe(g, 'from_measure', lambda: g.int('from_measure')),
                'to_measure': maybe(g, 'to_measure', lambda: g.int('to_measure')),
                'kern_type': maybe(g, 'kern_type', lambda: g.enum('kern_type', Encoding)),
                'instruments': None,
                'show_measure_numbers': maybe(g, 'show_measure_numbers', lambda: g.bool('show_measure_numbers')),
                'spine_ids': maybe(g, 'spine_ids', lambda: g.int_set('spine_ids'))}

    modifies = ()

    def post_selected_categories(result, include, exclude):
        return result.token_categories == sel(as_set(include, set(members(TokenCategory))), as_set(exclude, set()))

    def post_given_or_default(result, spine_types, from_measure, to_measure, kern_type, show_measure_numbers, spine_ids):
        return conj(result.spine_types is spine_types if spine_types is not None else result.spine_types == HEADERS,
                    result.from_measure is None if from_measure is None else result.from_measure == from_measure,
                    result.to_measure is None if to_measure is None else result.to_measure == to_measure,
                    result.kern_type == (Encoding.normalizedKern if kern_type is None else kern_type),
                    result.show_measure_numbers == (False if show_measure_numbers is None else show_measure_numbers),
                    result.spine_ids is spine_ids)

    def raises(include, exclude):
        return {'ValueError': disj(is_bad(include), is_bad(exclude))}


# ------------------------------------------------------------------------------------------------ lemmas
from contracts.spec_tokens import render_note
from contracts.shapes import mk_note


@contract(None, props=PROPS)
class filter_is_deletion:
    """C05: rendering a note under a category selection equals rendering the note whose unselected parts were deleted, for every
    selection and every converter: selected material is neither altered nor reordered; selecting everything is the identity."""
    def inputs(g):
        conv = g.choice('conv', ['none', 'fn'])
        return {'tok': mk_note(g), 'keep': g.cat_pred('sel', TokenCategory), 'conv': None if conv == 'none' else g.str_fn('Conv')}

    def post_deletion(tok, keep, conv):
        pd, dec = tok.pitch_duration_subtokens, tok.decoration_subtokens
        return render_note(pd, dec, keep, conv) == render_note([s for s in pd if keep(s.category)], [s for s in dec if keep(s.category)], None, conv)

    def post_select_all_is_identity(tok, conv):
        pd, dec = tok.pitch_duration_subtokens, tok.decoration_subtokens
        return render_note(pd, dec, lambda c: c in set(members(TokenCategory)), conv) == render_note(pd, dec, None, conv)


@contract(None, props=['C13'])
class explicit_defaults:
    """C13: passing every option's default value explicitly gives options that are observably equal to omitting it (real code)"""
    def inputs(g):
        return {}

    def post_same_options():
        a = Generic.parse_options_to_ExportOptions(spine_types=None, include=None, exclude=None, from_measure=None, to_measure=None,
                                                   kern_type=None, instruments=None, show_measure_numbers=None, spine_ids=None)
        b = Generic.parse_options_to_ExportOptions(spine_types=list(HEADERS), include=set(members(TokenCategory)), exclude=set(),
                                                   from_measure=None, to_measure=None, kern_type=Encoding.normalizedKern, instruments=None,
                                                   show_measure_numbers=False, spine_ids=None)
        return conj(set(a.spine_types) == set(b.spine_types), a.token_categories == b.token_categories, a.from_measure == b.from_measure,
                    a.to_measure == b.to_measure, a.kern_type == b.kern_type, a.instruments == b.instruments,
                    a.show_measure_numbers == b.show_measure_numbers, a.spine_ids == b.spine_ids)


# ------------------------------------------------------------------------------------------------ Exporter.get_spine_types (C06: the header line of the projection)
from pyvc.ghost import ghost_get, ghost_set

A_EXPORT = ('export_string(document, options) returns a text; get_spine_types reads its first line only (what the text is: the '
            'contracts of export_string)')


@contract(EX + 'Exporter.export_string', props=['C06'], name='export_string_summary_for_spine_types', local=True, assumed=A_EXPORT)
class export_string_summary_for_spine_types:
    def model(self, document, options):
        ghost_set('export.calls', ghost_get('export.calls', 0) + 1)
        ghost_set('export.options', options)
        return ghost_get('export.content')


@contract(EX + 'Exporter.get_spine_types', props=['C06'])
class get_spine_types:
    """The spine-type query is the header line of the projection.  Deductive clauses (for an implementation that answers through an
    export, as the current one does): exactly one export, of the very document, with the given spine types and the header category
    only and no other restriction; the answer is the cells of the first line of that text, in order, none dropped, none reordered
    (an empty text or an empty first line: no spine); an explicitly empty selection answers [] without exporting.  An implementation
    that does not export at all is not judged by these clauses (the bounded contract spine_selection_is_projection and the native
    clause below compare the answer with the header line of the real export)."""
    uses = ('export_string_summary_for_spine_types',)
    assumes = (A_EXPORT, 'domain: first lines of 0..3 cells (cell texts free of tab and newline), followed by any further lines')

    def inputs(g):
        shape = g.choice('spine_types.shape', ['none', 'empty', 'some'])
        sel = None if shape == 'none' else ([] if shape == 'empty' else g.str_subset('spine_types', ['**kern', '**text', '**harm']))
        ncells = g.choice('first line cells', [0, 1, 2, 3])
        cells = []
        for k in range(ncells):
            c = g.str_sym(f'cell{k}', ['**kern', '**text', '**ekern'])
            g.assume(conj(not ('\t' in c), not ('\n' in c), len(c) > 0))
            cells.append(c)
        more = g.choice('further lines', [True, False])
        content = '\t'.join(cells) + (('\n' + g.str_sym('rest', ['4c\t4e\n*-\t*-\n'])) if more else '')
        if g.symbolic:
            from kernpy.core.document import Document
            ghost_set('export.content', content)
            document = g.new(Document, {'tree': mk_tree(g), 'measure_start_tree_stages': [], 'page_bounding_boxes': {}, 'header_stage': g.int('header_stage', 1)}, None)
        else:
            document = native_document(g)
        return {'self': g.new(Exporter, {}, ()), 'document': document, 'spine_types': sel, '_cells': cells}

    modifies = ('self.**',)

    def post_cells_of_the_first_line(result, cells, spine_types):
        if not symbolic_run():
            return True
        if spine_types is not None and len(spine_types) == 0:
            return conj(result == [], ghost_get('export.calls', 0) == 0)
        if ghost_get('export.calls', 0) == 0:
            return True          # (not answered through an export: see the docstring)
        return conj(result == cells, ghost_get('export.calls', 0) == 1)

    def post_exports_headers_of_the_selection(spine_types):
        if not symbolic_run():
            return True
        if (spine_types is not None and len(spine_types) == 0) or ghost_get('export.calls', 0) == 0:
            return True
        o = ghost_get('export.options')
        return conj(o.spine_types is spine_types if spine_types is not None else o.spine_types is not None,
                    list(o.token_categories) == [TokenCategory.HEADER], o.from_measure is None, o.to_measure is None, o.spine_ids is None)

    def post_header_line_of_the_real_export(result, document, spine_types):
        if symbolic_run():
            return True
        if spine_types is not None and len(spine_types) == 0:
            return result == []
        text = Exporter().export_string(document, ExportOptions(spine_types=spine_types, token_categories=[TokenCategory.HEADER]))
        first = text.split('\n')[0]
        return result == ([] if first == '' else first.split('\t'))


# ------------------------------------------------------------------------------------------------ the public spine-type query is that very query
A_QUERY = 'Exporter.get_spine_types(document, spine_types) is a function of its arguments (what it answers: contract get_spine_types)'


@contract(EX + 'Exporter.get_spine_types', props=['C06'], name='get_spine_types_summary', local=True, assumed=A_QUERY)
class get_spine_types_summary:
    def model(self, document, spine_types):
        ghost_set('query.calls', ghost_get('query.calls', 0) + 1)
        ghost_set('query.args', (document, spine_types))
        return ghost_get('query.answer')


def mk_query_case(g):
    from kernpy.core.document import Document
    shape = g.choice('headers.shape', ['none', 'empty', 'some'])
    sel = None if shape == 'none' else ([] if shape == 'empty' else g.str_subset('headers', ['**kern', '**text', '**harm']))
    if g.symbolic:
        document = g.new(Document, {'tree': mk_tree(g), 'measure_start_tree_stages': [], 'page_bounding_boxes': {}, 'header_stage': 1}, None)
        answer = g.seq('answer', lambda e: e.str_sym('header', ['**kern', '**text']))
        ghost_set('query.answer', answer)
    else:
        document, answer = native_document(g), None
    return document, sel, answer


@contract('kernpy.core.generic.Generic.get_spine_types', props=['C06'], name='generic_get_spine_types')
class generic_get_spine_types:
    """the facade hands the document and the selection over unchanged, once, and returns the answer as it is"""
    uses = ('get_spine_types_summary',)
    assumes = (A_QUERY,)

    def inputs(g):
        document, sel, answer = mk_query_case(g)
        return {'cls': Generic, 'document': document, 'spine_types': sel, '_answer': answer}

    modifies = ()

    def post_handed_over_unchanged(result, document, spine_types, answer):
        if not symbolic_run():
            return result == Exporter().get_spine_types(document, spine_types)
        args = ghost_get('query.args')
        return conj(ghost_get('query.calls', 0) == 1, args[0] is document, args[1] is spine_types, result is answer)


@contract('kernpy.io.public.spine_types', props=['C06'], name='public_spine_types')
class public_spine_types:
    """kp.spine_types(document, headers) is that query: same document, headers as the selection, the answer returned as it is"""
    uses = ('get_spine_types_summary',)
    assumes = (A_QUERY,)

    def inputs(g):
        document, sel, answer = mk_query_case(g)
        return {'document': document, 'headers': sel, '_answer': answer}

    modifies = ()

    def post_handed_over_unchanged(result, document, headers, answer):
        if not symbolic_run():
            return result == Exporter().get_spine_types(document, headers)
        args = ghost_get('query.args')
        return conj(ghost_get('query.calls', 0) == 1, args[0] is document, args[1] is headers, result is answer)
