"""C04 / C05 / C13 / C01 / C03 (token level) -- token export and the six tokenizers (DESIGN 4.1, 4.3-4.5, 4.13)."""
from pyvc.contract import contract
from pyvc.ghost import ite, conj, disj, implies, iff
from contracts.spec_tokens import render_note, space_join, strip_separators, TOKEN_SEP, DECO_SEP
from contracts.shapes import mk_note
from kernpy.core.tokens import TokenCategory, NoteRestToken

TK = 'kernpy.core.tokens.'
ALLP = ['C01', 'C03', 'C04', 'C05', 'C13']


@contract(TK + 'NoteRestToken.export', props=ALLP + ['C10'])
class note_export:
    """NoteRestToken.export == Render(View(self), selection, converter): an equality with the canonical rendering for every
    number of sub-tokens and decorations, every category predicate and every converter function."""
    def inputs(g):
        tok = mk_note(g)
        keep = g.choice('filter', ['none', 'pred'])
        conv = g.choice('conv', ['none', 'fn'])
        return {'self': tok,
                'filter_categories': None if keep == 'none' else g.cat_pred('sel', TokenCategory),
                'convert_pitch_to_agnostic': None if conv == 'none' else g.str_fn('Conv')}

    modifies = ()

    def post_render_canonical(result, self, filter_categories, convert_pitch_to_agnostic):
        return result == render_note(self.pitch_duration_subtokens, self.decoration_subtokens, filter_categories,
                                     convert_pitch_to_agnostic)

    def model(self, kwargs):
        return render_note(self.pitch_duration_subtokens, self.decoration_subtokens, kwargs.get('filter_categories'),
                           kwargs.get('convert_pitch_to_agnostic'))
from contracts.spec_tokens import render_compound, render_chord, export_spec, is_note_like, no_decorations, plain, keeps_some_pd, basic_spec
from contracts.shapes import mk_chord, mk_compound, mk_simple_like, mk_any_token, SIMPLE_CLASSES, TOKEN_KINDS
from kernpy.core.tokens import ChordToken, CompoundToken
from kernpy.core.tokenizers import (Encoding, EkernTokenizer, KernTokenizer, BekernTokenizer, BkernTokenizer, AEKernTokenizer, AKernTokenizer,
                                    TokenizerFactory)

TZ = 'kernpy.core.tokenizers.'


def kw_inputs(g, with_conv=True):
    keep = g.choice('filter', ['none', 'pred'])
    conv = g.choice('conv', ['none', 'fn']) if with_conv else 'none'
    return (None if keep == 'none' else g.cat_pred('sel', TokenCategory)), (None if conv == 'none' else g.str_fn('Conv'))


@contract(TK + 'ChordToken.export', props=ALLP + ['C10'])
class chord_export:
    """every note of the chord is rendered (with the same selection / converter) and the renderings are joined by one space"""
    def inputs(g):
        keep, conv = kw_inputs(g)
        return {'self': mk_chord(g), 'filter_categories': keep, 'convert_pitch_to_agnostic': conv}

    modifies = ()

    def post_every_note_joined_by_space(result, self, filter_categories, convert_pitch_to_agnostic):
        return result == render_chord(self.notes_tokens, filter_categories, convert_pitch_to_agnostic)

    def model(self, kwargs):
        return render_chord(self.notes_tokens, kwargs.get('filter_categories'), kwargs.get('convert_pitch_to_agnostic'))


@contract(TK + 'CompoundToken.export', props=ALLP)
class compound_export:
    def inputs(g):
        keep, conv = kw_inputs(g, False)
        return {'self': mk_compound(g), 'filter_categories': keep}

    modifies = ()

    def post_selected_parts(result, self, filter_categories):
        return result == render_compound(self.subtokens, filter_categories)

    def model(self, kwargs):
        return render_compound(self.subtokens, kwargs.get('filter_categories'))


@contract(None, props=ALLP, name='simple_exports')
class simple_exports:
    """every token class other than notes, chords and compounds exports its encoding verbatim, whatever the options
    (behavioural subtyping: each override of Token.export is checked against its case of export_spec)"""
    def inputs(g):
        cls_name = g.choice('class', SIMPLE_CLASSES)
        keep, conv = kw_inputs(g)
        return {'tok': mk_simple_like(g, cls_name), 'keep': keep, 'conv': conv}

    def post_verbatim(tok, keep, conv):
        return conj(tok.export(filter_categories=keep, convert_pitch_to_agnostic=conv) == tok.encoding, tok.export() == tok.encoding)


# ------------------------------------------------------------------------------------------------------- tokenizers
def tokenizer_inputs(g, cls):
    kind = g.choice('token', TOKEN_KINDS)
    cats = g.enum_set('cats', TokenCategory)
    return {'self': g.new(cls, {'token_categories': cats}, None), 'token': mk_any_token(g, kind)}


def in_cats(self):
    return lambda c: c in self.token_categories


@contract(TZ + 'EkernTokenizer.tokenize', props=ALLP + ['C12'])
class ekern_tokenize:
    """ekern(token) == Export(token, selected categories): tokens of every class, symbolic category set"""
    def inputs(g):
        return tokenizer_inputs(g, EkernTokenizer)

    modifies = ()

    def post_is_export(result, self, token):
        return result == export_spec(token, in_cats(self), None)

    def model(self, token):
        return export_spec(token, in_cats(self), None)


@contract(TZ + 'KernTokenizer.tokenize', props=ALLP + ['C12'])
class kern_tokenize:
    """kern == ekern with the two separator characters removed"""
    def inputs(g):
        return tokenizer_inputs(g, KernTokenizer)

    modifies = ()

    def post_is_stripped_ekern(result, self, token):
        return result == plain(token, export_spec(token, in_cats(self), None))

    def model(self, token):
        return plain(token, export_spec(token, in_cats(self), None))


@contract(TZ + 'BekernTokenizer.tokenize', props=ALLP + ['C12'])
class bekern_tokenize:
    """bekern(token) == Export(token, selected categories minus DECORATION): the full encoding with the signifiers removed
    note by note (every note of a chord is kept); non-note tokens are identical to ekern.  This contract covers every token class
    but notes, chords and compound tokens and provides the model used at call sites; notes, rests and chords of up to three notes: contract
    bekern_tokenize_notes (the string surgery, proved); larger chords: bounded contract bekern_large_chords."""
    def inputs(g):
        kind = g.choice('token', [k for k in TOKEN_KINDS if k not in ('note', 'chord', 'compound')])
        cats = g.enum_set('cats', TokenCategory)
        return {'self': g.new(BekernTokenizer, {'token_categories': cats}, None), 'token': mk_any_token(g, kind)}

    modifies = ()

    def requires(self, token):
        return keeps_some_pd(token, in_cats(self))

    def post_basic_view(result, self, token):
        return result == basic_spec(token, in_cats(self))

    def model(self, token):
        return basic_spec(token, in_cats(self))


@contract(TZ + 'BkernTokenizer.tokenize', props=ALLP + ['C12'])
class bkern_tokenize:
    """bkern == bekern with the token separator removed"""
    def inputs(g):
        return tokenizer_inputs(g, BkernTokenizer)

    modifies = ()

    def requires(self, token):
        return keeps_some_pd(token, in_cats(self))

    def post_is_stripped_bekern(result, self, token):
        return result == plain(token, basic_spec(token, in_cats(self)), False)


# ------------------------------------------------------------------------------------------------------- agnostic tokenizers
from contracts.spec_staff import agn_text, CLEF_OF, BOTTOM
from contracts.shapes import mk_header_token, HEADER_TYPES
from kernpy.core.exporter import HeaderTokenGenerator, Exporter


@contract(TZ + 'AEKernTokenizer.tokenize.<locals>.callback_convert_pitch_subtoken_to_agnostic', props=ALLP + ['C10'], name='aekern_callback',
          assumed='function summary of the nested converter: an uninterpreted function AGN_<clef class> of the pitch letters (ValueError without a clef); '
                  'its value on every Humdrum spelling under every supported clef is proved on the real body by the C10 lemma callback_meaning')
class aekern_callback:
    """The converter the agnostic tokenizers hand to Token.export: abstractly AGN_<clef>(letters).  Its meaning on every
    Humdrum spelling is proved on the real body by the lemma `callback_meaning` (C10); here it is used as a function symbol."""
    def raises(clef):
        return {'ValueError': clef is None}

    def model(pitch_subtoken, clef):
        return agn_text(type(clef).__name__, pitch_subtoken)


def clef_encoding(g):
    # three representative clefs are enough here: the tokenizer only forwards the clef encoding (create_clef itself is
    # verified for every sign / line / octave marks in C10)
    sign, line = g.choice('clef', [('G', 2), ('F', 4), ('C', 3)])
    return sign, line, '*clef' + sign + '^' * g.int('marks_up', 0) + 'v' * g.int('marks_down', 0) + str(line)


def agnostic_inputs(g, cls):
    kind = g.choice('token', TOKEN_KINDS)
    cats = g.enum_set('cats', TokenCategory)
    has_clef = g.choice('has_clef', [True, False])
    sign, line, enc = clef_encoding(g)
    g.assume((sign, line) in CLEF_OF)
    # chords without a clef in force are not covered by this contract (the converter raises inside the per-note loop, which
    # the per-element rule cannot express); single notes without a clef are covered
    g.assume(has_clef or kind != 'chord')
    return {'self': g.new(cls, {'token_categories': cats, 'last_clef': enc if has_clef else None}, None),
            'token': mk_any_token(g, kind)}


def clef_class_name(enc):
    """class of the clef an interpretation such as '*clefGv2' denotes: sign letter and line digit, octave marks ignored"""
    if enc is None:
        return None
    body = enc.replace('*clef', '')
    sign = [c for c in body if c in 'GFC'][0]
    line = int([c for c in body if c in '12345'][0])
    return CLEF_OF[(sign, line)]


def needs_conversion(token, keep):
    """some note of the token has pitch letters that are selected (then the converter is invoked)"""
    kind = type(token).__name__
    if kind == 'NoteRestToken':
        return len([s for s in token.pitch_duration_subtokens if conj(s.category == TokenCategory.PITCH, keep(s.category))]) > 0
    if kind == 'ChordToken':
        return len([n for n in token.notes_tokens
                    if len([s for s in n.pitch_duration_subtokens if conj(s.category == TokenCategory.PITCH, keep(s.category))]) > 0]) > 0
    return False


def aekern_text(self, token):
    clef = clef_class_name(self.last_clef)
    return export_spec(token, in_cats(self), lambda s: agn_text(clef, s))


@contract(TZ + 'AEKernTokenizer.tokenize', props=ALLP + ['C10'])
class aekern_tokenize:
    """aekern(token) == Export(token, selection, AGN_clef): identical to ekern except that the selected pitch letters of every
    note are converted under the clef in force; ValueError when a pitch must be converted and no clef is known"""
    def inputs(g):
        return agnostic_inputs(g, AEKernTokenizer)

    modifies = ()

    def post_is_export_with_converter(result, self, token):
        return result == aekern_text(self, token)

    def raises(self, token):
        return {'ValueError': conj(self.last_clef is None, needs_conversion(token, in_cats(self)))}

    def model(self, token):
        return aekern_text(self, token)


@contract(TZ + 'AKernTokenizer.tokenize', props=ALLP + ['C10'])
class akern_tokenize:
    def inputs(g):
        return agnostic_inputs(g, AKernTokenizer)

    modifies = ()

    def post_is_stripped_aekern(result, self, token):
        return result == plain(token, aekern_text(self, token))

    def raises(self, token):
        return {'ValueError': conj(self.last_clef is None, needs_conversion(token, in_cats(self)))}


from kernpy.core.gkern import ClefFactory


# ------------------------------------------------------------------------------------------------------- factory / headers
ENC_VALUES = ['ekern', 'kern', 'bkern', 'bekern', 'aekern', 'akern']
TOKENIZER_OF = {'ekern': 'EkernTokenizer', 'kern': 'KernTokenizer', 'bkern': 'BkernTokenizer', 'bekern': 'BekernTokenizer',
                'aekern': 'AEKernTokenizer', 'akern': 'AKernTokenizer'}
PREFIX_OF = {'eKern': 'e', 'normalizedKern': '', 'bKern': 'b', 'bEkern': 'be', 'agnosticKern': 'a', 'agnosticExtendedKern': 'ae'}


@contract(TZ + 'TokenizerFactory.create', props=ALLP + ['C10'])
class tokenizer_factory:
    """total on the six encoding values (ValueError otherwise); the tokenizer carries the category selection as a set and,
    for the agnostic ones, the encoding of the clef in force"""
    def inputs(g):
        shape = g.choice('cats.shape', ['set', 'list'])
        clef = g.choice('clef', ['none', 'token'])
        return {'cls': TokenizerFactory, 'type': g.choice('type', ENC_VALUES + ['xkern', None]),
                'token_categories': g.enum_set('cats', TokenCategory, shape),
                'last_clef_reference': None if clef == 'none' else mk_simple_like(g, 'ClefToken', 'clef')}

    modifies = ()

    def post_class(result, type):
        return result.__class__.__name__ == TOKENIZER_OF[type]

    def post_categories(result, token_categories):
        return result.token_categories == set(token_categories)

    def post_clef(result, type, last_clef_reference):
        if type not in ('aekern', 'akern'):
            return True
        return result.last_clef == (None if last_clef_reference is None else last_clef_reference.encoding)

    def raises(type):
        return {'ValueError': type not in ENC_VALUES}


@contract(TZ + 'Encoding.prefix', props=ALLP)
class encoding_prefix:
    def inputs(g):
        return {'self': g.enum('encoding', Encoding)}

    def post_prefix(result, self):
        return result == PREFIX_OF[self.name]

    def model(self):
        return PREFIX_OF[self.name]


@contract('kernpy.core.exporter.HeaderTokenGenerator.new', props=ALLP)
class header_generator:
    """'**' + encoding prefix + original type, same spine id; the document's header token is not touched"""
    def inputs(g):
        return {'cls': HeaderTokenGenerator, 'token': mk_header_token(g, 'hdr', HEADER_TYPES), 'type': g.enum('encoding', Encoding)}

    modifies = ()

    def post_header(result, token, type):
        return conj(result.encoding == '**' + PREFIX_OF[type.name] + token.encoding[2:], result.spine_id == token.spine_id,
                    result.category == TokenCategory.HEADER, result is not token)


# ------------------------------------------------------------------------------------------------------- the note-by-note surgery of bekern
from contracts.shapes import SUB_CORPUS, pd_pair_ok
from kernpy.core.tokens import Subtoken, NoteRestToken, ChordToken

SEPARATOR_FREE = ('domain: the texts of the sub-tokens of a note contain none of the three separator characters (space, @, ·) and are '
                  'not empty -- what the kern grammar produces; the string surgery of BekernTokenizer splits the rendered text at them')


def mk_clean_subtoken(e, cats):
    cat = e.enum_in('category', TokenCategory, cats)
    enc = e.str_for('encoding', cat, SUB_CORPUS)
    e.assume(len(enc) > 0)
    e.assume(not (' ' in enc))
    e.assume(not ('@' in enc))
    e.assume(not ('·' in enc))
    return e.new(Subtoken, {'encoding': enc, 'category': cat}, (enc, cat))


def mk_clean_note(g, name):
    from contracts.spec_tokens import PD_CATS
    pd = g.seq(name + '.pd', lambda e: mk_clean_subtoken(e, PD_CATS), None, pd_pair_ok)
    dec = g.seq(name + '.dec', lambda e: mk_clean_subtoken(e, [TokenCategory.DECORATION]))
    g.assume(len(pd) > 0)
    enc = g.str_sym(name + '.encoding', ['4c', '8dd#L'])
    return g.new(NoteRestToken, {'encoding': enc, 'category': TokenCategory.NOTE_REST, 'hidden': False,
                                 'pitch_duration_subtokens': pd, 'decoration_subtokens': dec}, (enc, pd, dec))


@contract(TZ + 'BekernTokenizer.tokenize', props=ALLP + ['C12'], name='bekern_tokenize_notes', use_at_calls=False)
class bekern_tokenize_notes:
    """the string surgery of bekern on notes, rests and chords of up to three notes: the rendered text is cut at the spaces (one piece
    per note), every piece loses what follows its first '·' and a trailing '@': what remains is the note without its signifiers,
    and no note of a chord is lost (C04).  Any number of sub-tokens and signifiers per note."""
    assumes = (SEPARATOR_FREE, 'domain: chords of 1..3 notes (the loop over the notes of the rendered text is unrolled)')

    def inputs(g):
        n = g.choice('notes', [-1, 0, 1, 2, 3])        # -1: a compound token, 0: a single note or rest
        cats = g.enum_set('cats', TokenCategory)
        if n == -1:
            from kernpy.core.tokens import CompoundToken
            subs = g.seq('compound.subs', lambda e: mk_clean_subtoken(e, list(TokenCategory)))
            enc, cat = g.str_sym('compound.encoding', ['abc']), g.enum('compound.category', TokenCategory)
            token = g.new(CompoundToken, {'encoding': enc, 'category': cat, 'hidden': False, 'subtokens': subs}, (enc, cat, subs))
        elif n == 0:
            token = mk_clean_note(g, 'note')
        else:
            notes = [mk_clean_note(g, f'n{k}') for k in range(n)]
            enc = g.str_sym('chord.encoding', ['4c 4e'])
            token = g.new(ChordToken, {'encoding': enc, 'category': TokenCategory.CHORD, 'hidden': False, 'notes_tokens': notes},
                          (enc, TokenCategory.CHORD, notes))
        return {'self': g.new(BekernTokenizer, {'token_categories': cats}, None), 'token': token}

    modifies = ()

    def requires(self, token):
        return keeps_some_pd(token, in_cats(self))

    def post_basic_view(result, self, token):
        return result == basic_spec(token, in_cats(self))


@contract(TZ + 'BekernTokenizer.tokenize', props=ALLP + ['C12'], name='bekern_tokenize_emptied_note', use_at_calls=False)
class bekern_tokenize_emptied_note:
    """The selections outside C04's own domain, stated for C13 (the options compose: the category filter deletes, then the encoding is
    a view of what is left): a single note or rest of which no duration / pitch / rest part is selected has nothing left in the basic
    encodings, which carry no signifiers -- the text is empty when signifiers are selected (the exporter writes the placeholder for
    it), and the note's own placeholder when nothing of the note is selected at all."""
    assumes = (SEPARATOR_FREE,)

    def inputs(g):
        cats = g.enum_set('cats', TokenCategory)
        return {'self': g.new(BekernTokenizer, {'token_categories': cats}, None), 'token': mk_clean_note(g, 'note')}

    modifies = ()

    def requires(self, token):
        return not keeps_some_pd(token, in_cats(self))

    def post_nothing_left(result, self, token):
        keep = in_cats(self)
        if len([s for s in token.decoration_subtokens if keep(s.category)]) > 0:
            return result == ''
        # (no part of the note is selected at all: the note's own export already is the placeholder)
        return result == export_spec(token, keep, None)


@contract(None, props=ALLP, bounded='random chords of 4..7 notes, random sub-tokens from the corpus, random category selections (the proved contract covers chords of up to three notes)')
class bekern_large_chords:
    """the basic view of a chord of any size keeps every note (C04)"""
    def inputs(g):
        import random as _r
        from contracts.shapes import SUB_CORPUS as C
        rng = g.seeded_rng('chord.seed')
        notes = []
        for _ in range(rng.randint(4, 7)):
            pd = [Subtoken(rng.choice(C[TokenCategory.DURATION]), TokenCategory.DURATION) for _ in range(rng.randint(0, 2))]
            pd.append(Subtoken(rng.choice(C[TokenCategory.PITCH]), TokenCategory.PITCH))
            if rng.random() < 0.4:
                pd.append(Subtoken(rng.choice(C[TokenCategory.ALTERATION]), TokenCategory.ALTERATION))
            dec = [Subtoken(d, TokenCategory.DECORATION) for d in rng.sample(C[TokenCategory.DECORATION], rng.randint(0, 3))]
            notes.append(NoteRestToken('x', pd, dec))
        cats = {c for c in TokenCategory if rng.random() < 0.8} | {TokenCategory.PITCH}
        return {'token': ChordToken('chord', TokenCategory.CHORD, notes), 'cats': cats}

    def post_every_note_kept_without_signifiers(token, cats):
        got = BekernTokenizer(token_categories=cats).tokenize(token)
        return got == basic_spec(token, lambda c: c in cats)
