"""C04 / C05 / C13 / C01 / C03 (token level) -- token export and the six tokenizers (DESIGN 4.1, 4.3-4.5, 4.13)."""
from pyvc.contract import contract
from pyvc.ghost import ite, conj, disj, implies, iff
from contracts.spec_tokens import render_note, space_join, strip_separators, TOKEN_SEP, DECO_SEP
from contracts.shapes import mk_note
from kernpy.core.tokens import TokenCategory, NoteRestToken

TK = 'kernpy.core.tokens.'
ALLP = ['C01', 'C03', 'C04', 'C05', 'C13']


@contract(TK + 'NoteRestToken.export', props=ALLP + ['C10'])
class note_export:
    """NoteRestToken.export == Render(View(self), selection, converter): an equality with the canonical rendering for every
    number of sub-tokens and decorations, every category predicate and every converter function."""
    def inputs(g):
        tok = mk_note(g)
        keep = g.choice('filter', ['none', 'pred'])
        conv = g.choice('conv', ['none', 'fn'])
        return {'self': tok,
                'filter_categories': None if keep == 'none' else g.cat_pred('sel', TokenCategory),
                'convert_pitch_to_agnostic': None if conv == 'none' else g.str_fn('Conv')}

    modifies = ()

    def post_render_canonical(result, self, filter_categories, convert_pitch_to_agnostic):
        return result == render_note(self.pitch_duration_subtokens, self.decoration_subtokens, filter_categories,
                                     convert_pitch_to_agnostic)

    def model(self, kwargs):
        return render_note(self.pitch_duration_subtokens, self.decoration_subtokens, kwargs.get('filter_categories'),
                           kwargs.get('convert_pitch_to_agnostic'))
from contracts.spec_tokens import render_compound, render_chord, export_spec, is_note_like, no_decorations, plain, keeps_some_pd, basic_spec
from contracts.shapes import mk_chord, mk_compound, mk_simple_like, mk_any_token, SIMPLE_CLASSES, TOKEN_KINDS
from kernpy.core.tokens import ChordToken, CompoundToken
from kernpy.core.tokenizers import (Encoding, EkernTokenizer, KernTokenizer, BekernTokenizer, BkernTokenizer, AEKernTokenizer, AKernTokenizer,
                                    TokenizerFactory)

TZ = 'kernpy.core.tokenizers.'


def kw_inputs(g, with_conv=True):
    keep = g.choice('filter', ['none', 'pred'])
    conv = g.choice('conv', ['none', 'fn']) if with_conv else 'none'
    return (None if keep == 'none' else g.cat_pred('sel', TokenCategory)), (None if conv == 'none' else g.str_fn('Conv'))


@contract(TK + 'ChordToken.export', props=ALLP + ['C10'])
class chord_export:
    """every note of the chord is rendered (with the same selection / converter) and the renderings are joined by one space"""
    def inputs(g):
        keep, conv = kw_inputs(g)
        return {'self': mk_chord(g), 'filter_categories': keep, 'convert_pitch_to_agnostic': conv}

    modifies = ()

    def post_every_note_joined_by_space(result, self, filter_categories, convert_pitch_to_agnostic):
        return result == render_chord(self.notes_tokens, filter_categories, convert_pitch_to_agnostic)

    def model(self, kwargs):
        return render_chord(self.notes_tokens, kwargs.get('filter_categories'), kwargs.get('convert_pitch_to_agnostic'))


@contract(TK + 'CompoundToken.export', props=ALLP)
class compound_export:
    def inputs(g):
        keep, conv = kw_inputs(g, False)
        return {'self': mk_compound(g), 'filter_categories': keep}

    modifies = ()

    def post_selected_parts(result, self, filter_categories):
        return result == render_compound(self.subtokens, filter_categories)

    def model(self, kwargs):
        return render_compound(self.subtokens, kwargs.get('filter_categories'))


@contract(None, props=ALLP, name='simple_exports')
class simple_exports:
    """every token class other than notes, chords and compounds exports its encoding verbatim, whatever the options
    (behavioural subtyping: each override of Token.export is checked against its case of export_spec)"""
    def inputs(g):
        cls_name = g.choice('class', SIMPLE_CLASSES)
        keep, conv = kw_inputs(g)
        return {'tok': mk_simple_like(g, cls_name), 'keep': keep, 'conv': conv}

    def post_verbatim(tok, keep, conv):
        return conj(tok.export(filter_categories=keep, convert_pitch_to_agnostic=conv) == tok.encoding, tok.export() == tok.encoding)


# ------------------------------------------------------------------------------------------------------- tokenizers
def tokenizer_inputs(g, cls):
    kind = g.choice('token', TOKEN_KINDS)
    cats = g.enum_set('cats', TokenCategory)
    return {'self': g.new(cls, {'token_categories': cats}, None), 'token': mk_any_token(g, kind)}


def in_cats(self):
    return lambda c: c in self.token_categories


@contract(TZ + 'EkernTokenizer.tokenize', props=ALLP)
class ekern_tokenize:
    """ekern(token) == Export(token, selected categories): tokens of every class, symbolic category set"""
    def inputs(g):
        return tokenizer_inputs(g, EkernTokenizer)

    modifies = ()

    def post_is_export(result, self, token):
        return result == export_spec(token, in_cats(self), None)

    def model(self, token):
        return export_spec(token, in_cats(self), None)


@contract(TZ + 'KernTokenizer.tokenize', props=ALLP)
class kern_tokenize:
    """kern == ekern with the two separator characters removed"""
    def inputs(g):
        return tokenizer_inputs(g, KernTokenizer)

    modifies = ()

    def post_is_stripped_ekern(result, self, token):
        return result == plain(token, export_spec(token, in_cats(self), None))

    def model(self, token):
        return plain(token, export_spec(token, in_cats(self), None))


@contract(TZ + 'BekernTokenizer.tokenize', props=ALLP)
class bekern_tokenize:
    """bekern(token) == Export(token, selected categories minus DECORATION): the full encoding with the signifiers removed
    note by note (every note of a chord is kept); non-note tokens are identical to ekern"""
    def inputs(g):
        return tokenizer_inputs(g, BekernTokenizer)

    modifies = ()

    def requires(self, token):
        return keeps_some_pd(token, in_cats(self))

    def post_basic_view(result, self, token):
        return result == basic_spec(token, in_cats(self))

    def model(self, token):
        return basic_spec(token, in_cats(self))


@contract(TZ + 'BkernTokenizer.tokenize', props=ALLP)
class bkern_tokenize:
    """bkern == bekern with the token separator removed"""
    def inputs(g):
        return tokenizer_inputs(g, BkernTokenizer)

    modifies = ()

    def requires(self, token):
        return keeps_some_pd(token, in_cats(self))

    def post_is_stripped_bekern(result, self, token):
        return result == plain(token, basic_spec(token, in_cats(self)), False)
