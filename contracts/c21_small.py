"""Small functions on the paths of several properties: delegations, counters, converters (each verified for all inputs)."""
from pyvc.contract import contract
from pyvc.ghost import ite, conj, disj, implies, iff, opaque, ghost_events, ghost_set, ghost_get, members
from contracts.c20 import record, calls_of
from contracts.shapes import mk_document_index
from kernpy.core.tokens import TokenCategory, HEADERS, BEKERN_CATEGORIES
from kernpy.core.document import Document
from kernpy.core.error_listener import ErrorListener
from kernpy.core.generic import Generic
from kernpy.core.exporter import Exporter
from contracts.spec_cat import closure

DOC = 'kernpy.core.document.Document.'
EX = 'kernpy.core.exporter.'
GEN = 'kernpy.core.generic.Generic.'
PUB = 'kernpy.io.public.'


# ---------------------------------------------------------------------------------------------------- C01 / C20: ekern -> kern text
@contract(EX + 'get_kern_from_ekern', props=['C01', 'C20'])
class get_kern_from_ekern:
    """the text with every '**e<type>' header of a known spine type restored and both separator characters removed"""
    def inputs(g):
        return {'ekern_content': g.str_sym('text', ['**ekern\t**etext\n4@c·L\tla\n*-\t*-\n'])}

    def post_headers_restored_then_stripped(result, ekern_content):
        t = ekern_content
        for h in sorted(HEADERS):
            t = t.replace('**e' + h[2:], h)
        return result == t.replace('@', '').replace('·', '')


# ---------------------------------------------------------------------------------------------------- C07: measure counting protocol
@contract(DOC + 'measures_count', props=['C07', 'C19'])
class measures_count:
    def inputs(g):
        return {'self': mk_document_index(g)}

    modifies = ()

    def post_count(result, self):
        return result == len(self.measure_start_tree_stages)

    def raises(self):
        return {'Exception': len(self.measure_start_tree_stages) == 0}

    def model(self):
        return len(self.measure_start_tree_stages)


@contract(DOC + 'get_first_measure', props=['C07'])
class get_first_measure:
    def inputs(g):
        return {'self': mk_document_index(g)}

    modifies = ()

    def post_one(result):
        return result == 1

    def raises(self):
        return {'Exception': len(self.measure_start_tree_stages) == 0}


# ---------------------------------------------------------------------------------------------------- C12: the error listener
@contract('kernpy.core.error_listener.ErrorListener.getNumberErrorsFound', props=['C12'])
class listener_count:
    def inputs(g):
        return {'self': g.new(ErrorListener, {'errors': g.mlist('errs', lambda e: e.str_sym('m')), 'verbose': False}, None)}

    modifies = ()

    def post_count(result, self):
        return result == len(self.errors)


@contract('kernpy.core.error_listener.ErrorListener.syntaxError', props=['C12'])
class listener_syntax_error:
    """one ParseError is appended per reported syntax error (verbose off); nothing else changes"""
    def inputs(g):
        lst = g.new(ErrorListener, {'errors': g.mlist('errs', lambda e: e.str_sym('m')), 'verbose': False}, None)
        return {'self': lst, 'recognizer': opaque('recognizer'), 'offendingSymbol': opaque('symbol'), 'line': g.int('line'),
                'charPositionInLine': g.int('col'), 'msg': g.str_sym('msg'), 'e': None, '_before': lst.errors.copy()}

    def modifies_objs(self):
        return [self.errors]

    def post_one_more(self, before, msg, charPositionInLine):
        return conj(len(self.errors) == len(before) + 1, self.errors[:-1] == before, self.errors[-1].msg == msg,
                    self.errors[-1].charPositionInLine == charPositionInLine)


# ---------------------------------------------------------------------------------------------------- delegations of the public API
@contract('kernpy.core.importer.Importer.__init__', props=['C14', 'C20'], name='importer_init_summary', local=True,
          assumed='abstraction of Importer.__init__: a fresh importer with an empty error list (its fields are set by the constructor verified in C02\'s building blocks)')
class importer_init_summary:
    def model(self):
        self.errors = []
        record('Importer()', importer=self)
        return None


@contract('kernpy.core.importer.Importer.import_string', props=['C20'], name='import_string_summary', local=True,
          assumed='abstraction of import_string (verified by contract import_string, C02)')
class import_string_summary:
    def model(self, text):
        d = opaque('document')
        for k in range(ghost_get('import.errors', 0)):          # the import reports this many malformed cells on the importer
            self.errors.append(opaque('error'))
        record('import_string', importer=self, text=text, result=d)
        return d


@contract('kernpy.core.importer.Importer.import_file', props=['C20'], name='import_file_summary', local=True,
          assumed='abstraction of import_file (verified by contract import_file, C02)')
class import_file_summary:
    def model(self, file_path):
        from pyvc.ghost import havoc_bool
        d = opaque('document')
        if havoc_bool('import.has_errors'):
            self.errors.append(opaque('ErrorToken'))
        record('import_file', importer=self, path=file_path, result=d)
        return d


@contract(GEN + 'create', props=['C20', 'C14'])
class generic_create:
    """a fresh Importer per call; returns (import_string(content), that importer's errors)"""
    uses = ('importer_init_summary', 'import_string_summary')
    def inputs(g):
        n = g.choice('errors reported', [0, 1, 2])
        if g.symbolic:
            ghost_set('import.errors', n)
        return {'cls': Generic, 'content': opaque('text'), 'strict': g.choice('strict', [False, True]), '_n': n}

    def raises(strict, n):
        # raise_on_errors: the import is refused iff it reported a malformed cell (C12: reported, never silently dropped)
        return {'Exception': conj(strict, n > 0)}

    def post_fresh_importer_document_and_errors(result, content):
        imp, calls = calls_of('Importer()'), calls_of('import_string')
        return conj(len(imp) == 1, len(calls) == 1, calls[0]['importer'] is imp[0]['importer'], calls[0]['text'] is content,
                    result[0] is calls[0]['result'], result[1] is imp[0]['importer'].errors)


@contract(GEN + 'read', props=['C20', 'C14'])
class generic_read:
    """same as create, through import_file"""
    uses = ('importer_init_summary', 'import_file_summary')
    def inputs(g):
        return {'cls': Generic, 'path': opaque('path'), 'strict': g.choice('strict', [False, True])}

    def raises(strict):
        imp = calls_of('Importer()')
        return {'Exception': conj(strict, len(imp) == 1, False if len(imp) != 1 else len(imp[0]['importer'].errors) > 0)}

    def post_fresh_importer_document_and_errors(result, path):
        imp, calls = calls_of('Importer()'), calls_of('import_file')
        return conj(len(imp) == 1, len(calls) == 1, calls[0]['importer'] is imp[0]['importer'], calls[0]['path'] is path,
                    result[0] is calls[0]['result'], result[1] is imp[0]['importer'].errors)


@contract(EX + 'Exporter.export_string', props=['C20', 'C14'], name='export_string_summary', local=True,
          assumed='abstraction of Exporter.export_string: a string determined by (document, options); the export itself is the subject of C03-C08')
class export_string_summary:
    def model(self, document, options):
        r = opaque('exported text')
        record('export_string', exporter=self, document=document, options=options, result=r)
        return r


@contract(GEN + 'export', props=['C20', 'C14'], use_at_calls=False)
class generic_export:
    uses = ('export_string_summary',)

    def inputs(g):
        return {'cls': Generic, 'document': opaque('document'), 'options': opaque('options')}

    def post_fresh_exporter(result, document, options):
        ex = calls_of('export_string')
        return conj(len(ex) == 1, ex[0]['document'] is document, ex[0]['options'] is options, result is ex[0]['result'])


# ---------------------------------------------------------------------------------------------------- C20: the converters
def temp_ekern_file(final_newline):
    import os
    import tempfile
    d = tempfile.mkdtemp(prefix='pyvc_')
    p = os.path.join(d, 'a.ekrn')
    with open(p, 'w', encoding='utf-8', newline='') as f:
        f.write('**ekern\t**etext\n4@c·L\tla@la\n4@d\t.\n*-\t*-' + ('\n' if final_newline else ''))
    return p


def temp_out_path():
    import os
    import tempfile
    return os.path.join(tempfile.mkdtemp(prefix='pyvc_'), 'out.krn')


@contract(EX + 'ekern_to_krn', props=['C20'])
class ekern_to_krn:
    """reads the input file, writes get_kern_from_ekern(its whole content) to the output file (truncating) in one write, nothing else"""
    uses = ('get_kern_from_ekern_summary',)
    def inputs(g):
        nl = g.choice('final_newline', [True, False])
        return {'input_file': g.ext('in', lambda: temp_ekern_file(nl)), 'output_file': g.ext('out', temp_out_path)}

    def post_read_convert_write(input_file, output_file):
        from pyvc.ghost import symbolic_run
        if not symbolic_run():
            import kernpy as kp
            return open(output_file, encoding='utf-8', newline='').read() == kp.get_kern_from_ekern(open(input_file, encoding='utf-8', newline='').read())
        ev = ghost_events()
        opens = [e for e in ev if e[1] == 'open']
        reads = [e for e in ev if e[0] == 'file' and e[1] == 'read']
        writes = [e for e in ev if e[0] == 'file' and e[1] == 'write']
        conv = calls_of('get_kern_from_ekern')
        return conj(len(opens) == 2, opens[0][2][1] == 'r', opens[1][2][1] == 'w', len(reads) == 1, len(writes) == 1, len(conv) == 1,
                    writes[0][2][0] is conv[0]['result'], opens[0][2][0] is input_file, opens[1][2][0] is output_file)


@contract(EX + 'get_kern_from_ekern', props=['C20'], name='get_kern_from_ekern_summary', local=True,
          assumed='abstraction of get_kern_from_ekern (verified by contract get_kern_from_ekern)')
class get_kern_from_ekern_summary:
    def model(ekern_content):
        r = opaque('kern text')
        record('get_kern_from_ekern', text=ekern_content, result=r)
        return r


@contract(EX + 'ExportOptions.__init__', props=['C20'], name='export_options_init_summary', local=True,
          assumed='abstraction of ExportOptions.__init__ for the converter: records the keyword arguments')
class export_options_init_summary:
    def model(self, spine_types=None, token_categories=None, kern_type=None):
        self.spine_types, self.token_categories, self.kern_type = spine_types, token_categories, kern_type
        record('ExportOptions', options=self)
        return None


@contract(EX + 'kern_to_ekern', props=['C20'])
class kern_to_ekern:
    """the converter writes what dumps(doc, spine_types=['**kern'], include=BEKERN_CATEGORIES, encoding=eKern) produces: the options
    select the **kern spines, the bekern categories WITH their descendants, the extended encoding; errors abort the conversion"""
    uses = ('importer_init_summary', 'import_file_summary', 'export_string_summary', 'export_options_init_summary')
    def inputs(g):
        return {'input_file': opaque('in'), 'output_file': opaque('out')}

    def post_options_and_write(input_file, output_file):
        imp, rd, ex = calls_of('Importer()'), calls_of('import_file'), calls_of('export_string')
        opts = calls_of('ExportOptions')
        writes = [e for e in ghost_events() if e[0] == 'file' and e[1] == 'write']
        opens = [e for e in ghost_events() if e[1] == 'open']
        if len(ex) != 1 or len(opts) != 1 or len(rd) != 1:
            return False
        o = opts[0]['options']
        return conj(rd[0]['path'] is input_file, ex[0]['document'] is rd[0]['result'], ex[0]['options'] is o,
                    o.spine_types == ['**kern'], set(o.token_categories) == closure(BEKERN_CATEGORIES), o.kern_type.name == 'eKern',
                    len(writes) == 1, writes[0][2][0] is ex[0]['result'], len(opens) == 1, opens[0][2][0] is output_file, opens[0][2][1] == 'w')

    def raises():
        imp = calls_of('Importer()')
        return {'Exception': False if len(imp) == 0 else len(imp[0]['importer'].errors) > 0}


# ---------------------------------------------------------------------------------------------------- C07 / C14: iterating a document
@contract(DOC + '__iter__', props=['C07', 'C14'])
class document_iter:
    """iterating a document yields the measure indexes first..count, from a NEW iterator object on every call: nothing is stored in
    the document (two iterations of one document are independent of each other)"""
    def inputs(g):
        return {'self': mk_document_index(g)}

    modifies = ()

    def requires(self):
        return len(self.measure_start_tree_stages) > 0

    def post_fresh_iterator_from_the_first_measure(result, self):
        first = next(result)
        return conj(result is not self, first == 1, next(result, -1) == (2 if len(self.measure_start_tree_stages) >= 2 else -1))


@contract(DOC + '__next__', props=['C14'])
class document_next:
    """next(document) does not advance anything stored in the document"""
    def inputs(g):
        return {'self': mk_document_index(g)}

    modifies = ()

    def requires(self):
        return len(self.measure_start_tree_stages) > 0

    def post_first_measure(result):
        return result == 1
