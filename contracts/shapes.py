"""Builders for instances of repository classes: symbolic (SObj with the listed fields) or concrete (real constructor)."""
from kernpy.core.pitch_models import AgnosticPitch, HumdrumPitchImporter, HumdrumPitchExporter


def mk_pitch(g, name, octave):
    return g.new(AgnosticPitch, {'_AgnosticPitch__name': name, '_AgnosticPitch__octave': octave}, (name, octave))


def mk_humdrum_importer(g):
    return g.new(HumdrumPitchImporter, {'octave': None, 'name': None}, ())


def mk_humdrum_exporter(g):
    return g.new(HumdrumPitchExporter, {'pitch': None}, ())
