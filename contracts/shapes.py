"""Builders for instances of repository classes: symbolic (SObj with the listed fields) or concrete (real constructor)."""
from kernpy.core.pitch_models import AgnosticPitch, HumdrumPitchImporter, HumdrumPitchExporter


def mk_pitch(g, name, octave):
    return g.new(AgnosticPitch, {'_AgnosticPitch__name': name, '_AgnosticPitch__octave': octave}, (name, octave))


def mk_humdrum_importer(g):
    return g.new(HumdrumPitchImporter, {'octave': None, 'name': None}, ())


def mk_humdrum_exporter(g):
    return g.new(HumdrumPitchExporter, {'pitch': None}, ())


from kernpy.core.gkern import (PositionInStaff, PitchPositionReferenceSystem, DiatonicPitch, GClef, F3Clef, F4Clef, C1Clef,
                               C2Clef, C3Clef, C4Clef)

CLEF_CLASSES = [GClef, F3Clef, F4Clef, C1Clef, C2Clef, C3Clef, C4Clef]


def mk_clef(g, cls):
    # the decorative fields (diatonic_pitch, on_line) are not read by the position computation
    return g.new(cls, {'diatonic_pitch': None, 'on_line': None}, ())


def mk_position(g, ls):
    return g.new(PositionInStaff, {'line_space': ls}, (ls,))


def mk_refsys(g, base):
    return g.new(PitchPositionReferenceSystem, {'base_pitch': base}, (base,))



def mk_spine_importer(g, cls):
    # import_listener / error_listener of the outer importer are never read by the non-kern import_token bodies
    return g.new(cls, {'import_listener': None, 'error_listener': None}, ())
