"""Builders for instances of repository classes: symbolic (SObj with the listed fields) or concrete (real constructor)."""
from kernpy.core.pitch_models import AgnosticPitch, HumdrumPitchImporter, HumdrumPitchExporter


def mk_pitch(g, name, octave):
    return g.new(AgnosticPitch, {'_AgnosticPitch__name': name, '_AgnosticPitch__octave': octave}, (name, octave))


def mk_humdrum_importer(g):
    return g.new(HumdrumPitchImporter, {'octave': None, 'name': None}, ())


def mk_humdrum_exporter(g):
    return g.new(HumdrumPitchExporter, {'pitch': None}, ())


from kernpy.core.gkern import (PositionInStaff, PitchPositionReferenceSystem, DiatonicPitch, GClef, F3Clef, F4Clef, C1Clef,
                               C2Clef, C3Clef, C4Clef)

CLEF_CLASSES = [GClef, F3Clef, F4Clef, C1Clef, C2Clef, C3Clef, C4Clef]


def mk_clef(g, cls):
    # the decorative fields (diatonic_pitch, on_line) are not read by the position computation
    return g.new(cls, {'diatonic_pitch': None, 'on_line': None}, ())


def mk_position(g, ls):
    return g.new(PositionInStaff, {'line_space': ls}, (ls,))


def mk_refsys(g, base):
    return g.new(PitchPositionReferenceSystem, {'base_pitch': base}, (base,))



def mk_spine_importer(g, cls):
    # import_listener / error_listener of the outer importer are never read by the non-kern import_token bodies
    return g.new(cls, {}, ())      # the object a caller gets from cls(): the current constructor runs (symbolically too)


from pyvc.ghost import conj, disj, implies
from kernpy.core.tokens import (TokenCategory, Subtoken, NoteRestToken, ChordToken, CompoundToken, SimpleToken, ErrorToken, HeaderToken,
                                BoundingBoxToken, MHXMToken, BarToken, ClefToken, SpineOperationToken, MetacommentToken, FieldCommentToken)


SUB_CORPUS = {TokenCategory.DURATION: ['4', '.', '8', '16', 'q', '2', '3%2'], TokenCategory.PITCH: ['c', 'cc', 'C', 'DD', 'b', 'g', 'eee'],
              TokenCategory.ALTERATION: ['#', '-', 'n', '##', '#X', '-y'], TokenCategory.REST: ['r'],
              TokenCategory.DECORATION: ['L', 'J', '_', '[', ']', '(', ')', ';', "'", '^', '~', 'T', '/', 'k', 'y@', 'yy@', 'y'], None: ['x', 'ab']}


def mk_subtoken(e, cats, corpus):
    cat = e.enum_in('category', TokenCategory, cats)
    enc = e.str_for('encoding', cat, SUB_CORPUS)
    e.assume(len(enc) > 0)
    return e.new(Subtoken, {'encoding': enc, 'category': cat}, (enc, cat))


def pd_pair_ok(a, b):
    # a rest has duration marks and the rest sign only: no pitch letters, no accidental next to a rest sign
    # and at most one pitch-letters part, one accidental part, one rest sign
    return conj(implies(a.category == TokenCategory.REST, b.category == TokenCategory.DURATION),
                implies(b.category == TokenCategory.REST, a.category == TokenCategory.DURATION),
                disj(a.category != TokenCategory.PITCH, b.category != TokenCategory.PITCH),
                disj(a.category != TokenCategory.ALTERATION, b.category != TokenCategory.ALTERATION))


def mk_note(g, name='tok'):
    from contracts.spec_tokens import PD_CATS, PD_CORPUS, DEC_CORPUS
    pd = g.seq(name + '.pd', lambda e: mk_subtoken(e, PD_CATS, PD_CORPUS), None, pd_pair_ok)
    dec = g.seq(name + '.dec', lambda e: mk_subtoken(e, [TokenCategory.DECORATION], DEC_CORPUS))
    g.assume(len(pd) > 0)
    enc = g.str_sym(name + '.encoding', ['4c', '8dd#L'])
    return g.new(NoteRestToken, {'encoding': enc, 'category': TokenCategory.NOTE_REST, 'hidden': False,
                                 'pitch_duration_subtokens': pd, 'decoration_subtokens': dec}, (enc, pd, dec))


SIMPLE_CLASSES = ['SimpleToken', 'ErrorToken', 'HeaderToken', 'BarToken', 'ClefToken', 'SpineOperationToken', 'MetacommentToken',
                  'FieldCommentToken', 'BoundingBoxToken', 'MHXMToken']
NON_NOTE_CORPUS = ['*clefG2', '=', '=:|!', '.', '*', 'Hello', 'col·lec', 'a@b', 'la la', 'pp', '!x', '**kern', '*^', '*-', 'Z z']


def mk_simple_like(g, cls_name, name='tok'):
    """a token whose export is its encoding: every class that inherits SimpleToken.export or repeats it"""
    enc = g.str_sym(name + '.encoding', NON_NOTE_CORPUS)
    g.assume(len(enc) > 0)
    if cls_name == 'SimpleToken':
        cat = g.enum(name + '.category', TokenCategory)
        return g.new(SimpleToken, {'encoding': enc, 'category': cat, 'hidden': False}, (enc, cat))
    if cls_name == 'ErrorToken':
        return g.new(ErrorToken, {'encoding': enc, 'category': TokenCategory.ERROR, 'hidden': False, 'error': 'e', 'line': 1}, (enc, 1, 'e'))
    if cls_name == 'HeaderToken':
        sid = g.int(name + '.spine_id', 0)
        return g.new(HeaderToken, {'encoding': enc, 'category': TokenCategory.HEADER, 'hidden': False, 'spine_id': sid}, (enc, sid))
    if cls_name == 'BarToken':
        hidden = g.bool(name + '.hidden')
        return with_hidden(g.new(BarToken, {'encoding': enc, 'category': TokenCategory.BARLINES, 'hidden': hidden}, (enc,)), hidden)
    if cls_name == 'ClefToken':
        return g.new(ClefToken, {'encoding': enc, 'category': TokenCategory.CLEF, 'hidden': False}, (enc,))
    if cls_name == 'SpineOperationToken':
        return g.new(SpineOperationToken, {'encoding': enc, 'category': TokenCategory.SPINE_OPERATION, 'hidden': False,
                                           'cancelled_at_stage': None}, (enc,))
    if cls_name == 'MetacommentToken':
        return g.new(MetacommentToken, {'encoding': enc, 'category': TokenCategory.LINE_COMMENTS, 'hidden': False}, (enc,))
    if cls_name == 'FieldCommentToken':
        return g.new(FieldCommentToken, {'encoding': enc, 'category': TokenCategory.FIELD_COMMENTS, 'hidden': False}, (enc,))
    if cls_name in ('BoundingBoxToken', 'MHXMToken'):
        # not SimpleToken subclasses; their text never contains a separator or a space ('*xywh:..' by the grammar; MHXMToken is
        # not produced by any importer)
        g.assume(conj('@' not in enc, '·' not in enc, ' ' not in enc))
    if cls_name == 'BoundingBoxToken':
        return g.new(BoundingBoxToken, {'encoding': enc, 'category': TokenCategory.BOUNDING_BOXES, 'hidden': False,
                                        'page_number': '1', 'bounding_box': None}, (enc, '1', None))
    return g.new(MHXMToken, {'encoding': enc, 'category': TokenCategory.MHXM, 'hidden': False}, (enc,))


def with_hidden(tok, hidden):
    if not hasattr(tok, 'fields'):      # concrete object: the constructor does not take `hidden`
        tok.hidden = hidden
    return tok


def mk_chord(g, name='tok'):
    notes = g.seq(name + '.notes', lambda e: mk_note(e, 'n'))
    g.assume(len(notes) > 0)
    enc = g.str_sym(name + '.encoding', ['4c 4e'])
    return g.new(ChordToken, {'encoding': enc, 'category': TokenCategory.CHORD, 'hidden': False, 'notes_tokens': notes},
                 (enc, TokenCategory.CHORD, notes))


def mk_compound(g, name='tok'):
    from contracts.spec_tokens import PD_CORPUS
    subs = g.seq(name + '.subs', lambda e: mk_subtoken(e, list(TokenCategory), PD_CORPUS))
    enc = g.str_sym(name + '.encoding', ['abc'])
    cat = g.enum(name + '.category', TokenCategory)
    return g.new(CompoundToken, {'encoding': enc, 'category': cat, 'hidden': False, 'subtokens': subs}, (enc, cat, subs))


TOKEN_KINDS = SIMPLE_CLASSES + ['note', 'chord', 'compound']


def mk_any_token(g, kind, name='tok'):
    if kind == 'note':
        return mk_note(g, name)
    if kind == 'chord':
        return mk_chord(g, name)
    if kind == 'compound':
        return mk_compound(g, name)
    return mk_simple_like(g, kind, name)


HEADER_TYPES = ['kern', 'mens', 'text', 'harm', 'mxhm', 'root', 'dyn', 'dynam', 'fing', 'silbe']


def mk_header_token(g, name='hdr', types=None):
    enc = '**' + g.choice(name + '.type', types or ['kern', 'silbe'])
    sid = g.int(name + '.spine_id', 0)
    return g.new(HeaderToken, {'encoding': enc, 'category': TokenCategory.HEADER, 'hidden': False, 'spine_id': sid}, (enc, sid))


from kernpy.core.document import Node, SignatureNodes
from kernpy.core.exporter import ExportOptions, Exporter
from kernpy.core.tokenizers import Encoding

HEADER_UNIVERSE = ['**' + t for t in HEADER_TYPES]


def mk_signature_nodes(g, nodes):
    sn = g.new(SignatureNodes, {'nodes': nodes}, ())
    if not hasattr(sn, 'fields'):
        sn.nodes = nodes
    return sn


def mk_node(g, token, header_node, clef_node=None, stage=3):
    """a tree node as Importer.run leaves it: token, header node of its spine, last clef in force (or none)"""
    sigs = mk_signature_nodes(g, {'ClefToken': clef_node} if clef_node is not None else {})
    n = g.new(Node, {'id': 1, 'token': token, 'parent': None, 'children': [], 'stage': stage, 'header_node': header_node,
                     'last_signature_nodes': sigs, 'last_spine_operator_node': None}, None)
    if not hasattr(n, 'fields'):
        n.id, n.token, n.parent, n.children, n.stage, n.header_node = 1, token, None, [], stage, header_node
        n.last_signature_nodes, n.last_spine_operator_node = sigs, None
    return n


def mk_options(g, encoding=None):
    """ExportOptions with symbolic selections: spine types as a subset of the header universe, spine ids None or an arbitrary
    collection of ints, categories a symbolic set (as list or set), encoding symbolic"""
    types = g.str_subset('spine_types', HEADER_UNIVERSE)
    ids = None if g.choice('spine_ids.none', [True, False]) else g.int_set('spine_ids')
    cats = g.enum_set('cats', TokenCategory)
    enc = g.enum('encoding', Encoding) if encoding is None else encoding
    o = g.new(ExportOptions, {'spine_types': types, 'from_measure': None, 'to_measure': None, 'token_categories': cats, 'kern_type': enc,
                              'instruments': None, 'show_measure_numbers': False, 'spine_ids': ids}, None)
    if not hasattr(o, 'fields'):
        o.spine_types, o.from_measure, o.to_measure, o.token_categories, o.kern_type = types, None, None, cats, enc
        o.instruments, o.show_measure_numbers, o.spine_ids = None, False, ids
    return o


from kernpy.core.document import Document, MultistageTree


def mk_options_range(g):
    """ExportOptions whose measure range is None or any integer (the other fields are not read by the validator)"""
    a = None if g.choice('from.none', [True, False]) else g.int('from_measure')
    b = None if g.choice('to.none', [True, False]) else g.int('to_measure')
    o = g.new(ExportOptions, {'spine_types': None, 'from_measure': a, 'to_measure': b, 'token_categories': None, 'kern_type': None,
                              'instruments': None, 'show_measure_numbers': False, 'spine_ids': None}, None)
    if not hasattr(o, 'fields'):
        o.from_measure, o.to_measure = a, b
    return o


def mk_document_index(g):
    """a Document of which only the measure index is read: M measure starts at arbitrary stages"""
    mst = g.seq('mst', lambda e: e.int('stage', 0))
    d = g.new(Document, {'tree': None, 'measure_start_tree_stages': mst, 'page_bounding_boxes': {}, 'header_stage': None}, None)
    if not hasattr(d, 'fields'):
        d.tree, d.measure_start_tree_stages, d.page_bounding_boxes, d.header_stage = None, mst, {}, None
    return d


from kernpy.core.importer import Importer


def mk_tree_node(g, name, token, header=None, last_op=None, stage=None):
    """a node of an imported tree with an arbitrary (symbolic) list of children"""
    kids = g.mlist(name + '.children', lambda e: e.new(Node, {'id': e.int('id')}, None))
    st = g.int(name + '.stage', 0) if stage is None else stage
    sigs = mk_signature_nodes(g, {})
    n = g.new(Node, {'id': g.int(name + '.id', 1), 'token': token, 'parent': None, 'children': kids, 'stage': st, 'header_node': header,
                     'last_signature_nodes': sigs, 'last_spine_operator_node': last_op}, None)
    if not hasattr(n, 'fields'):
        n.id, n.token, n.parent, n.children, n.stage, n.header_node = 1, token, None, kids, st, header
        n.last_signature_nodes, n.last_spine_operator_node = sigs, last_op
    return n


def mk_tree(g, node_builder=None):
    """a MultistageTree with an arbitrary number of stages, each an arbitrary list of nodes"""
    if node_builder is None:
        node_builder = lambda e2: e2.new(Node, {'id': e2.int('id')}, None)
    stages = g.mlist('stages', lambda e: e.mlist('nodes', node_builder))
    root = g.new(Node, {'id': 0, 'token': None, 'parent': None, 'children': [], 'stage': 0, 'header_node': None,
                        'last_signature_nodes': None, 'last_spine_operator_node': None}, None)
    t = g.new(MultistageTree, {'root': root, 'stages': stages}, None)
    if not hasattr(t, 'fields'):
        t.root, t.stages = root, stages
    return t


def mk_importer(g):
    if not g.symbolic:
        return Importer()
    imp = g.new(Importer, {'last_measure_number': None, 'last_bounding_box': None, 'errors': [], '_tree': None, '_document': g.new(Document, {}, None),
                           '_importers': {}, '_header_row_number': None, '_row_number': 1, '_tree_stage': 0, '_next_stage_parents': None,
                           '_prev_stage_parents': None, '_last_node_previous_to_header': None}, None)
    return imp



def mk_path_node_with_op(e):
    return mk_path_node(e, True)


def mk_path_node(e, with_op=False, token=None):
    """a node of the previous stage: token simple or spine operator, header node of its spine, last operator or none"""
    htok = e.new(HeaderToken, {'encoding': e.str_sym('hdr.encoding', ['**kern', '**text']), 'category': TokenCategory.HEADER, 'hidden': False,
                               'spine_id': e.int('hdr.spine_id', 0)}, None)
    hdr = e.new(Node, {'id': e.int('hdr.id', 1), 'token': htok, 'children': [], 'header_node': None}, None)
    op = None
    if with_op:
        optok = e.new(SpineOperationToken, {'encoding': '*^', 'category': TokenCategory.SPINE_OPERATION, 'hidden': False, 'cancelled_at_stage': None}, None)
        # (the operator cell has its own table of signatures in force -- one clef that the cells below may have replaced since: a cell
        # that takes its signatures from the operator instead of from the cell above is told apart)
        stale = e.new(Node, {'id': e.int('op.clef.id', 1), 'token': None}, None)
        op = e.new(Node, {'id': e.int('op.id', 1), 'token': optok, 'children': [], 'header_node': hdr, 'last_spine_operator_node': None,
                          'last_signature_nodes': e.new(SignatureNodes, {'nodes': {'ClefToken': stale}}, None)}, None)
    if token is None:
        token = e.new(SimpleToken, {'encoding': e.str_sym('tok.encoding'), 'category': e.enum('tok.category', TokenCategory), 'hidden': False}, None)
    return e.new(Node, {'id': e.int('id', 1), 'token': token,
                        'parent': None, 'children': e.mlist('children', lambda e2: e2.new(Node, {'id': e2.int('id')}, None)),
                        'stage': e.int('stage', 0), 'header_node': hdr, 'last_signature_nodes': e.new(SignatureNodes, {'nodes': {}}, None),
                        'last_spine_operator_node': op}, None)


def mk_operator_path_node(e):
    """a node of the previous stage that is itself a spine operator cell (the row before was an operator record)"""
    optok = e.new(SpineOperationToken, {'encoding': e.str_sym('optok.encoding', ['*^', '*', '*v']), 'category': TokenCategory.SPINE_OPERATION, 'hidden': False,
                                        'cancelled_at_stage': None}, None)
    return mk_path_node(e, False, optok)


def mk_full_importer(g, with_ops=False, parents='cells'):
    """an Importer in the middle of run(): arbitrary tree, arbitrary parents of the previous and of the next stage"""
    tree = mk_tree(g)
    doc = g.new(Document, {'tree': tree, 'measure_start_tree_stages': [], 'page_bounding_boxes': {}, 'header_stage': None}, None)
    prev = g.mlist('prev', mk_operator_path_node if parents == 'operators' else (mk_path_node_with_op if with_ops else mk_path_node))
    nxt = g.mlist('next', mk_path_node)
    last = mk_tree_node(g, 'pre', mk_simple_like(g, 'MetacommentToken', 'pretok'))
    hrn = None if g.choice('header_row.none', [True, False]) else g.int('header_row', 1)
    return g.new(Importer, {'last_measure_number': None, 'last_bounding_box': None, 'errors': [], '_tree': tree, '_document': doc,
                            '_importers': {}, '_header_row_number': hrn, '_row_number': g.int('row_number', 1), '_tree_stage': g.int('tree_stage', 1),
                            '_next_stage_parents': nxt, '_prev_stage_parents': prev, '_last_node_previous_to_header': last}, None)



def mk_token_list(g, name):
    return g.mlist(name, lambda e: e.new(SimpleToken, {'encoding': e.str_sym('encoding'), 'category': e.enum('category', TokenCategory), 'hidden': False}, None))
