"""Builders for instances of repository classes: symbolic (SObj with the listed fields) or concrete (real constructor)."""
from kernpy.core.pitch_models import AgnosticPitch, HumdrumPitchImporter, HumdrumPitchExporter


def mk_pitch(g, name, octave):
    return g.new(AgnosticPitch, {'_AgnosticPitch__name': name, '_AgnosticPitch__octave': octave}, (name, octave))


def mk_humdrum_importer(g):
    return g.new(HumdrumPitchImporter, {'octave': None, 'name': None}, ())


def mk_humdrum_exporter(g):
    return g.new(HumdrumPitchExporter, {'pitch': None}, ())


from kernpy.core.gkern import (PositionInStaff, PitchPositionReferenceSystem, DiatonicPitch, GClef, F3Clef, F4Clef, C1Clef,
                               C2Clef, C3Clef, C4Clef)

CLEF_CLASSES = [GClef, F3Clef, F4Clef, C1Clef, C2Clef, C3Clef, C4Clef]


def mk_clef(g, cls):
    # the decorative fields (diatonic_pitch, on_line) are not read by the position computation
    return g.new(cls, {'diatonic_pitch': None, 'on_line': None}, ())


def mk_position(g, ls):
    return g.new(PositionInStaff, {'line_space': ls}, (ls,))


def mk_refsys(g, base):
    return g.new(PitchPositionReferenceSystem, {'base_pitch': base}, (base,))



def mk_spine_importer(g, cls):
    # import_listener / error_listener of the outer importer are never read by the non-kern import_token bodies
    return g.new(cls, {'import_listener': None, 'error_listener': None}, ())


from pyvc.ghost import conj, disj, implies
from kernpy.core.tokens import (TokenCategory, Subtoken, NoteRestToken, ChordToken, CompoundToken, SimpleToken, ErrorToken, HeaderToken,
                                BoundingBoxToken, MHXMToken, BarToken, ClefToken, SpineOperationToken, MetacommentToken, FieldCommentToken)


def mk_subtoken(e, cats, corpus):
    enc = e.str_sym('encoding', corpus)
    cat = e.enum_in('category', TokenCategory, cats)
    e.assume(len(enc) > 0)
    return e.new(Subtoken, {'encoding': enc, 'category': cat}, (enc, cat))


def pd_pair_ok(a, b):
    # a rest has duration marks and the rest sign only: no pitch letters, no accidental next to a rest sign
    return conj(implies(a.category == TokenCategory.REST, disj(b.category == TokenCategory.DURATION, b.category == TokenCategory.REST)),
                implies(b.category == TokenCategory.REST, disj(a.category == TokenCategory.DURATION, a.category == TokenCategory.REST)))


def mk_note(g, name='tok'):
    from contracts.spec_tokens import PD_CATS, PD_CORPUS, DEC_CORPUS
    pd = g.seq(name + '.pd', lambda e: mk_subtoken(e, PD_CATS, PD_CORPUS), None, pd_pair_ok)
    dec = g.seq(name + '.dec', lambda e: mk_subtoken(e, [TokenCategory.DECORATION], DEC_CORPUS))
    g.assume(len(pd) > 0)
    enc = g.str_sym(name + '.encoding', ['4c', '8dd#L'])
    return g.new(NoteRestToken, {'encoding': enc, 'category': TokenCategory.NOTE_REST, 'hidden': False,
                                 'pitch_duration_subtokens': pd, 'decoration_subtokens': dec}, (enc, pd, dec))


SIMPLE_CLASSES = ['SimpleToken', 'ErrorToken', 'HeaderToken', 'BarToken', 'ClefToken', 'SpineOperationToken', 'MetacommentToken',
                  'FieldCommentToken', 'BoundingBoxToken', 'MHXMToken']
NON_NOTE_CORPUS = ['*clefG2', '=', '=:|!', '.', '*', 'Hello', 'col·lec', 'a@b', 'la la', 'pp', '!x', '**kern', '*^', '*-', 'Z z']


def mk_simple_like(g, cls_name, name='tok'):
    """a token whose export is its encoding: every class that inherits SimpleToken.export or repeats it"""
    enc = g.str_sym(name + '.encoding', NON_NOTE_CORPUS)
    g.assume(len(enc) > 0)
    if cls_name == 'SimpleToken':
        cat = g.enum(name + '.category', TokenCategory)
        return g.new(SimpleToken, {'encoding': enc, 'category': cat, 'hidden': False}, (enc, cat))
    if cls_name == 'ErrorToken':
        return g.new(ErrorToken, {'encoding': enc, 'category': TokenCategory.ERROR, 'hidden': False, 'error': 'e', 'line': 1}, (enc, 1, 'e'))
    if cls_name == 'HeaderToken':
        sid = g.int(name + '.spine_id', 0)
        return g.new(HeaderToken, {'encoding': enc, 'category': TokenCategory.HEADER, 'hidden': False, 'spine_id': sid}, (enc, sid))
    if cls_name == 'BarToken':
        hidden = g.bool(name + '.hidden')
        return with_hidden(g.new(BarToken, {'encoding': enc, 'category': TokenCategory.BARLINES, 'hidden': hidden}, (enc,)), hidden)
    if cls_name == 'ClefToken':
        return g.new(ClefToken, {'encoding': enc, 'category': TokenCategory.CLEF, 'hidden': False}, (enc,))
    if cls_name == 'SpineOperationToken':
        return g.new(SpineOperationToken, {'encoding': enc, 'category': TokenCategory.SPINE_OPERATION, 'hidden': False,
                                           'cancelled_at_stage': None}, (enc,))
    if cls_name == 'MetacommentToken':
        return g.new(MetacommentToken, {'encoding': enc, 'category': TokenCategory.LINE_COMMENTS, 'hidden': False}, (enc,))
    if cls_name == 'FieldCommentToken':
        return g.new(FieldCommentToken, {'encoding': enc, 'category': TokenCategory.FIELD_COMMENTS, 'hidden': False}, (enc,))
    if cls_name in ('BoundingBoxToken', 'MHXMToken'):
        # not SimpleToken subclasses; their text never contains a separator or a space ('*xywh:..' by the grammar; MHXMToken is
        # not produced by any importer)
        g.assume(conj('@' not in enc, '·' not in enc, ' ' not in enc))
    if cls_name == 'BoundingBoxToken':
        return g.new(BoundingBoxToken, {'encoding': enc, 'category': TokenCategory.BOUNDING_BOXES, 'hidden': False,
                                        'page_number': '1', 'bounding_box': None}, (enc, '1', None))
    return g.new(MHXMToken, {'encoding': enc, 'category': TokenCategory.MHXM, 'hidden': False}, (enc,))


def with_hidden(tok, hidden):
    if not hasattr(tok, 'fields'):      # concrete object: the constructor does not take `hidden`
        tok.hidden = hidden
    return tok


def mk_chord(g, name='tok'):
    notes = g.seq(name + '.notes', lambda e: mk_note(e, 'n'))
    g.assume(len(notes) > 0)
    enc = g.str_sym(name + '.encoding', ['4c 4e'])
    return g.new(ChordToken, {'encoding': enc, 'category': TokenCategory.CHORD, 'hidden': False, 'notes_tokens': notes},
                 (enc, TokenCategory.CHORD, notes))


def mk_compound(g, name='tok'):
    from contracts.spec_tokens import PD_CORPUS
    subs = g.seq(name + '.subs', lambda e: mk_subtoken(e, list(TokenCategory), PD_CORPUS))
    enc = g.str_sym(name + '.encoding', ['abc'])
    cat = g.enum(name + '.category', TokenCategory)
    return g.new(CompoundToken, {'encoding': enc, 'category': cat, 'hidden': False, 'subtokens': subs}, (enc, cat, subs))


TOKEN_KINDS = SIMPLE_CLASSES + ['note', 'chord', 'compound']


def mk_any_token(g, kind, name='tok'):
    if kind == 'note':
        return mk_note(g, name)
    if kind == 'chord':
        return mk_chord(g, name)
    if kind == 'compound':
        return mk_compound(g, name)
    return mk_simple_like(g, kind, name)
