"""C11 -- the category algebra follows the documented tree (DESIGN 4.11).

The hierarchy literal is read from the ast.  Its 38 sub-dictionaries are the only values `tree` parameters ever take;
each recursive helper is verified per sub-dictionary, the recursive call being replaced by the helper's own contract
at the child sub-dictionary (well-founded by depth).  Categories are symbolic over the enum, include/exclude are
symbolic bit-sets (all 2^37 x 2^37 pairs), in the four argument shapes."""
from pyvc.contract import contract
from pyvc.ghost import ite, conj, disj, implies, iff, forall, exists, members
from contracts.doc_tree import DOC_TREE, DOC_TREE_TEXT
from contracts.spec_cat import (desc, kids, leaves_below, all_cats, is_desc, closure, sel, sub_name_of, subdicts, to_names,
                                subdict_for, DOC_NAMES, names_in)
from kernpy.core.tokens import TokenCategory, TokenCategoryHierarchyMapper

M = 'kernpy.core.tokens.TokenCategoryHierarchyMapper.'
T = 'kernpy.core.tokens.TokenCategory.'


# ------------------------------------------------------------------------------------------------ the literal
@contract(None, props=['C11'], const='kernpy.core.tokens.TokenCategoryHierarchyMapper.hierarchy')
class hierarchy_literal:
    def inputs(g):
        return {}

    def post_matches_documented_tree(result):
        return to_names(result) == DOC_TREE

    def post_forest_each_category_once(result):
        names = [k.name for d in subdicts(result) for k in d.keys()]
        return conj(len(names) == len(set(names)), set(names) == {m.name for m in members(TokenCategory)})

    def post_documented_order(result):
        # tree() prints in insertion order: the literal lists the categories in the documented order
        return names_in(to_names(result)) == DOC_NAMES


def tree_param(g):
    return g.choice('tree', subdicts(TokenCategoryHierarchyMapper.hierarchy))


# ------------------------------------------------------------------------------------------------ recursive helpers
@contract(M + '_is_child', props=['C11'])
class _is_child:
    """Helper: requires that `parent` is a key of `tree` (the call-site precondition); then the answer is
    'child is a strict descendant of parent'."""
    def inputs(g):
        return {'cls': TokenCategoryHierarchyMapper, 'parent': g.enum('parent', TokenCategory),
                'child': g.enum('child', TokenCategory), 'tree': tree_param(g)}

    modifies = ()

    def requires(parent, tree):
        return parent in tree

    def post_descendant(result, parent, child):
        return iff(result, is_desc(parent, child))

    def model(parent, child):
        return is_desc(parent, child)


@contract(M + '_nodes', props=['C11'])
class _nodes:
    def inputs(g):
        return {'cls': TokenCategoryHierarchyMapper, 'tree': tree_param(g)}

    modifies = ()

    def post_all_nodes(result, tree):
        return result == sub_name_of(tree)

    def model(tree):
        return sub_name_of(tree)


@contract(M + '_find_subtree', props=['C11'])
class _find_subtree:
    def inputs(g):
        return {'cls': TokenCategoryHierarchyMapper, 'tree': tree_param(g), 'parent': g.enum('parent', TokenCategory)}

    modifies = ()

    def post_found(result, tree, parent):
        return forall(members(TokenCategory), lambda m: implies(parent == m, result is subdict_for(tree, m)))

    def model(tree, parent):
        for m in members(TokenCategory):
            if parent == m:
                return subdict_for(tree, m)
        return None


@contract(M + '_leaves', props=['C11'])
class _leaves:
    def inputs(g):
        return {'cls': TokenCategoryHierarchyMapper, 'tree': tree_param(g)}

    modifies = ()

    def post_leaves(result, tree):
        return result == {c for c in sub_name_of(tree) if len(kids(c)) == 0}

    def model(tree):
        return {c for c in sub_name_of(tree) if len(kids(c)) == 0}


# ------------------------------------------------------------------------------------------------ public queries
@contract(M + 'is_child', props=['C11'])
class is_child:
    """is_child(p, c)  <=>  c == p or c is a descendant of p, for all 37 x 37 pairs."""
    def inputs(g):
        return {'cls': TokenCategoryHierarchyMapper, 'parent': g.enum('parent', TokenCategory), 'child': g.enum('child', TokenCategory)}

    modifies = ()

    def post_descendant_or_self(result, parent, child):
        return iff(result, disj(parent == child, is_desc(parent, child)))

    def model(parent, child):
        return disj(parent == child, is_desc(parent, child))


@contract(M + 'children', props=['C11'])
class children:
    def inputs(g):
        return {'cls': TokenCategoryHierarchyMapper, 'parent': g.enum('parent', TokenCategory)}

    modifies = ()

    def post_direct_children(result, parent):
        return forall(members(TokenCategory), lambda m: implies(parent == m, result == kids(m)))


@contract(M + 'nodes', props=['C11'])
class nodes:
    def inputs(g):
        return {'cls': TokenCategoryHierarchyMapper, 'parent': g.enum('parent', TokenCategory)}

    modifies = ()

    def post_descendants(result, parent):
        return forall(members(TokenCategory), lambda m: implies(parent == m, result == desc(m)))

    def model(parent):
        for m in members(TokenCategory):
            if parent == m:
                return desc(m)
        return None


@contract(M + 'leaves', props=['C11'])
class leaves:
    def inputs(g):
        return {'cls': TokenCategoryHierarchyMapper, 'target': g.enum('target', TokenCategory)}

    modifies = ()

    def post_leaves(result, target):
        return forall(members(TokenCategory), lambda m: implies(target == m, result == leaves_below(m)))


@contract(M + 'all', props=['C11'])
class mapper_all:
    def inputs(g):
        return {'cls': TokenCategoryHierarchyMapper}

    modifies = ()

    def post_everything(result):
        return conj(result == all_cats(), result == set(members(TokenCategory)))

    def model():
        return set(members(TokenCategory))


@contract(M + 'tree', props=['C11'])
class tree_rendering:
    def inputs(g):
        return {'cls': TokenCategoryHierarchyMapper}

    modifies = ()

    def post_documented_text(result):
        return result == DOC_TREE_TEXT


# ------------------------------------------------------------------------------------------------ selection
SHAPES = ['none', 'set', 'list', 'tuple', 'single', 'bad-member', 'bad-single']


def selector(g, name):
    """An include/exclude argument in every shape the API accepts (plus the rejected ones)."""
    shape = g.choice(name + '.shape', SHAPES)
    if shape == 'none':
        return None
    if shape == 'single':
        return g.enum(name + '.value', TokenCategory)
    if shape == 'bad-single':
        return 'not-a-category'
    if shape == 'bad-member':
        return g.enum_set(name, TokenCategory, g.choice(name + '.kind', ['set', 'list', 'tuple']), True)
    return g.enum_set(name, TokenCategory, shape)


def as_set(x, default):
    """the set of categories an include/exclude argument denotes"""
    if x is None:
        return default
    if isinstance(x, (list, tuple)):
        return set(x)
    if isinstance(x, set):
        return x
    return {x}


def is_bad(x):
    return not all(isinstance(c, TokenCategory) for c in as_set(x, set()))


@contract(M + '_validate_include', props=['C11'])
class _validate_include:
    def inputs(g):
        return {'cls': TokenCategoryHierarchyMapper, 'include': selector(g, 'include')}

    modifies = ()

    def post_set(result, include):
        return result == as_set(include, set(members(TokenCategory)))

    def raises(include):
        return {'ValueError': is_bad(include)}

    def model(include):
        return as_set(include, set(members(TokenCategory)))


@contract(M + '_validate_exclude', props=['C11'])
class _validate_exclude:
    def inputs(g):
        return {'cls': TokenCategoryHierarchyMapper, 'exclude': selector(g, 'exclude')}

    modifies = ()

    def post_set(result, exclude):
        return result == as_set(exclude, set())

    def raises(exclude):
        return {'ValueError': is_bad(exclude)}

    def model(exclude):
        return as_set(exclude, set())


@contract(M + 'valid', props=['C11', 'C05', 'C13', 'C14', 'C17'])
class valid:
    """valid(I, E) == Clo(I) \\ Clo(E) with I = all when include is None and E = {} when exclude is None --
    for symbolic sets, in every argument shape; ValueError exactly when a member is not a category."""
    def inputs(g):
        return {'cls': TokenCategoryHierarchyMapper, 'include': selector(g, 'include'), 'exclude': selector(g, 'exclude')}

    modifies = ()

    def post_selected_set(result, include, exclude):
        return result == sel(as_set(include, set(members(TokenCategory))), as_set(exclude, set()))

    def raises(include, exclude):
        return {'ValueError': disj(is_bad(include), is_bad(exclude))}

    def model(include, exclude):
        return sel(as_set(include, set(members(TokenCategory))), as_set(exclude, set()))


@contract(M + '_match', props=['C11'])
class _match:
    def inputs(g):
        return {'cls': TokenCategoryHierarchyMapper, 'category': g.enum('category', TokenCategory),
                'include': g.enum_set('include', TokenCategory), 'exclude': g.enum_set('exclude', TokenCategory)}

    modifies = ()

    def post_selected(result, category, include, exclude):
        s = sel(include, exclude)
        return iff(result, exists(members(TokenCategory), lambda m: conj(disj(m == category, is_desc(category, m)), m in s)))

    def model(category, include, exclude):
        s = sel(include, exclude)
        return exists(members(TokenCategory), lambda m: conj(disj(m == category, is_desc(category, m)), m in s))


@contract(M + 'match', props=['C11'])
class match:
    """match(c, I, E)  <=>  c or one of its descendants is selected."""
    def inputs(g):
        return {'cls': TokenCategoryHierarchyMapper, 'category': g.enum('category', TokenCategory),
                'include': selector(g, 'include'), 'exclude': selector(g, 'exclude')}

    modifies = ()

    def post_selected(result, category, include, exclude):
        s = sel(as_set(include, set(members(TokenCategory))), as_set(exclude, set()))
        return iff(result, exists(members(TokenCategory), lambda m: conj(disj(m == category, is_desc(category, m)), m in s)))

    def raises(include, exclude):
        return {'ValueError': disj(is_bad(include), is_bad(exclude))}


# ------------------------------------------------------------------------------------------------ TokenCategory delegates
@contract(T + 'is_child', props=['C11'])
class cat_is_child:
    def inputs(g):
        return {'cls': TokenCategory, 'parent': g.enum('parent', TokenCategory), 'child': g.enum('child', TokenCategory)}

    modifies = ()

    def post_descendant_or_self(result, parent, child):
        return iff(result, disj(parent == child, is_desc(parent, child)))


@contract(T + 'children', props=['C11'])
class cat_children:
    def inputs(g):
        return {'cls': TokenCategory, 'target': g.enum('target', TokenCategory)}

    modifies = ()

    def post_direct_children(result, target):
        return forall(members(TokenCategory), lambda m: implies(target == m, result == kids(m)))


@contract(T + 'nodes', props=['C11'])
class cat_nodes:
    def inputs(g):
        return {'cls': TokenCategory, 'target': g.enum('target', TokenCategory)}

    modifies = ()

    def post_descendants(result, target):
        return forall(members(TokenCategory), lambda m: implies(target == m, result == desc(m)))


@contract(T + 'leaves', props=['C11'])
class cat_leaves:
    def inputs(g):
        return {'cls': TokenCategory, 'target': g.enum('target', TokenCategory)}

    modifies = ()

    def post_leaves(result, target):
        return forall(members(TokenCategory), lambda m: implies(target == m, result == leaves_below(m)))


@contract(T + 'valid', props=['C11'])
class cat_valid:
    def inputs(g):
        return {'cls': TokenCategory, 'include': selector(g, 'include'), 'exclude': selector(g, 'exclude')}

    modifies = ()

    def post_selected_set(result, include, exclude):
        return result == sel(as_set(include, set(members(TokenCategory))), as_set(exclude, set()))

    def raises(include, exclude):
        return {'ValueError': disj(is_bad(include), is_bad(exclude))}


@contract(T + 'match', props=['C11'])
class cat_match:
    def inputs(g):
        return {'cls': TokenCategory, 'target': g.enum('target', TokenCategory),
                'include': selector(g, 'include'), 'exclude': selector(g, 'exclude')}

    modifies = ()

    def post_selected(result, target, include, exclude):
        s = sel(as_set(include, set(members(TokenCategory))), as_set(exclude, set()))
        return iff(result, exists(members(TokenCategory), lambda m: conj(disj(m == target, is_desc(target, m)), m in s)))

    def raises(include, exclude):
        return {'ValueError': disj(is_bad(include), is_bad(exclude))}


@contract(T + 'all', props=['C11'])
class cat_all:
    def inputs(g):
        return {'cls': TokenCategory}

    modifies = ()

    def post_everything(result):
        return result == all_cats()


@contract(T + 'tree', props=['C11'])
class cat_tree:
    def inputs(g):
        return {'cls': TokenCategory}

    modifies = ()

    def post_documented_text(result):
        return result == DOC_TREE_TEXT
