"""C02 -- import builds the spine tree cell for cell (DESIGN 4.2): the building blocks of Importer.run under contract.
The row loop itself (global induction over rows) is covered by the bounded stand-in import_mirrors_text."""
from pyvc.contract import contract
from pyvc.ghost import ite, conj, disj, implies, iff, opaque
from contracts.shapes import mk_simple_like, mk_header_token, mk_tree_node, mk_tree, mk_importer
from kernpy.core.document import Node, SignatureNodes, MultistageTree
from kernpy.core.importer import Importer
from kernpy.core.tokens import TokenCategory

DOC = 'kernpy.core.document.'
IMP = 'kernpy.core.importer.Importer.'


# ------------------------------------------------------------------------------------------------ assumed: the line reader
@contract('csv.reader', props=['C02', 'C20'], name='csv_reader',
          assumed='A-csv: csv.reader(lines, delimiter=TAB, quoting=csv.QUOTE_NONE) yields, for every line, the list of its tab-separated '
                  'cells taken literally (no quote, comma or space interpretation); with any other dialect option the rows are not the literal grid')
class csv_reader:
    def requires(delimiter=None, quoting=None):
        # the call-site obligation of C02: cell text is taken literally only under exactly these options
        import csv
        return conj(delimiter == '\t', disj(quoting == ('extconst', 'csv.QUOTE_NONE'), quoting == csv.QUOTE_NONE))

    def model(args):
        return opaque('literal rows of', args[0])


@contract(IMP + 'run', props=['C02', 'C20'], name='importer_run_summary', local=True,
          assumed='callee summary of Importer.run for its two callers: consumes the reader and returns the importer\'s own document '
                  '(the tree it builds is the subject of the bounded stand-in import_mirrors_text)')
class importer_run_summary:
    def model(self, reader):
        return self._document


@contract(IMP + 'import_string', props=['C02', 'C12', 'C20'])
class import_string:
    """the text is split into lines and read with the literal tab reader; the result is what run() returns for those rows"""
    uses = ('importer_run_summary',)
    def inputs(g):
        return {'self': mk_importer(g), 'text': g.str_sym('text', ['**kern\n4c\n*-\n'])}

    def post_runs_on_literal_rows(result, self):
        return result is self._document


# ------------------------------------------------------------------------------------------------ nodes
@contract(DOC + 'SignatureNodes.clone', props=['C02', 'C14'])
class signature_nodes_clone:
    """a fresh SignatureNodes with a fresh dict holding the same entries; the original is untouched"""
    def inputs(g):
        n1 = mk_tree_node(g, 'a', mk_simple_like(g, 'ClefToken', 'clef'))
        shape = g.choice('entries', [0, 1])
        return {'self': g.new(SignatureNodes, {'nodes': {'ClefToken': n1} if shape else {}}, ())}

    modifies = ()

    def post_copy(result, self):
        return conj(result is not self, result.nodes is not self.nodes, result.nodes == self.nodes)

    def model(self):
        r = SignatureNodes.__new__(SignatureNodes)
        r.nodes = dict(self.nodes)
        return r


@contract(DOC + 'SignatureNodes.update', props=['C02'])
class signature_nodes_update:
    """the node becomes the last signature of its token class; other classes keep theirs"""
    def inputs(g):
        n1 = mk_tree_node(g, 'a', mk_simple_like(g, 'ClefToken', 'clef'))
        n2 = mk_tree_node(g, 'b', mk_simple_like(g, g.choice('cls', ['ClefToken', 'BarToken']), 'tok2'))
        return {'self': g.new(SignatureNodes, {'nodes': {'ClefToken': n1}}, ()), 'node': n2}

    modifies = ('self.nodes',)

    def post_updated(self, node, old):
        name = type(node.token).__name__
        return conj(self.nodes[name] is node,
                    all(self.nodes[k] is old['self'].nodes[k] for k in old['self'].nodes if k != name),
                    set(self.nodes.keys()) == set(old['self'].nodes.keys()) | {name})


@contract(IMP + 'get_last_spine_operator', props=['C02'])
class get_last_spine_operator:
    def inputs(g):
        kind = g.choice('parent', ['none', 'op', 'other'])
        prev = mk_tree_node(g, 'prev', mk_simple_like(g, 'SpineOperationToken', 'op0'))
        if kind == 'none':
            return {'parent': None}
        tok = mk_simple_like(g, 'SpineOperationToken' if kind == 'op' else 'SimpleToken', 'tok')
        return {'parent': mk_tree_node(g, 'p', tok, last_op=prev)}

    modifies = ()

    def post_last_operator(result, parent):
        if parent is None:
            return result is None
        if type(parent.token).__name__ == 'SpineOperationToken':
            return result is parent
        return result is parent.last_spine_operator_node

    def model(parent):
        if parent is None:
            return None
        if type(parent.token).__name__ == 'SpineOperationToken':
            return parent
        return parent.last_spine_operator_node


@contract(DOC + 'MultistageTree.add_node', props=['C02'])
class add_node:
    """Returns a fresh node with the given stage / token / parent / header; the node is appended to stage `stage` (a new last stage
    when stage == number of stages) and to parent.children; ValueError iff stage > number of stages; nothing else changes (frame)."""
    def inputs(g):
        tree = mk_tree(g)
        parent = mk_tree_node(g, 'parent', mk_simple_like(g, 'SimpleToken', 'ptok'))
        hdr = mk_tree_node(g, 'hdr', mk_header_token(g, 'h'))
        stage = g.int('stage', 0)
        target = tree.stages[stage] if stage < len(tree.stages) else None        # ghost: the stage list the node goes into
        return {'self': tree, 'stage': stage, 'parent': parent, 'token': mk_simple_like(g, 'SimpleToken', 'tok'),
                'last_spine_operator_node': None, 'previous_signature_nodes': None, 'header_node': hdr,
                '_target': target, '_target_before': None if target is None else target.copy(), '_kids_before': parent.children.copy(),
                '_nstages': len(tree.stages)}

    def modifies_objs(self, parent, target):
        return [self.stages, parent.children, 'Node.NextID'] + ([] if target is None else [target])

    def post_node_fields(result, stage, parent, token, header_node):
        return conj(result.stage == stage, result.token is token, result.parent is parent, result.header_node is header_node,
                    len(result.children) == 0)

    def post_stage_bookkeeping(result, self, stage, target, target_before, nstages):
        if target is None:
            return conj(len(self.stages) == nstages + 1, self.stages[-1] == [result])
        return conj(len(self.stages) == nstages, self.stages[stage] is target, target[-1] is result, target[:-1] == target_before)

    def post_child_of_parent(result, parent, kids_before):
        return conj(parent.children[-1] is result, parent.children[:-1] == kids_before)

    def raises(self, stage, nstages):
        return {'ValueError': stage > nstages}


# ------------------------------------------------------------------------------------------------ the per-cell step functions of Importer.run
from contracts.shapes import mk_full_importer
from kernpy.core.tokens import HeaderToken, SpineOperationToken


@contract(IMP + '_compute_header_token', props=['C02', 'C06'])
class compute_header_token:
    """A header cell: a fresh node under the last pre-header node, carrying HeaderToken(cell, spine id = column index), its own
    header_node, appended to the parents of the next stage; a second header row raises."""
    def inputs(g):
        imp = mk_full_importer(g)
        return {'self': imp, 'column_index': g.int('column', 0), 'column_content': '**' + g.choice('type', ['kern', 'text', 'silbe']),
                '_next_before': imp._next_stage_parents.copy()}

    def modifies_objs(self):
        return [self._next_stage_parents, self._tree.stages, self._last_node_previous_to_header.children, self._document, self._importers,
                'Node.NextID'] + [st for st in [stage_list(self)] if st is not None]

    def post_header_node(self, column_index, column_content, next_before):
        node = self._next_stage_parents[-1]
        return conj(self._next_stage_parents[:-1] == next_before, node.header_node is node, type(node.token).__name__ == 'HeaderToken',
                    node.token.encoding == column_content, node.token.spine_id == column_index, node.stage == self._tree_stage,
                    node.parent is self._last_node_previous_to_header, self._document.header_stage == self._tree_stage,
                    column_content in self._importers)

    def raises(self):
        return {'Exception': conj(self._header_row_number is not None,
                                  False if self._header_row_number is None else self._header_row_number != self._row_number),
                'ValueError': self._tree_stage > len(self._tree.stages)}


def stage_list(imp):
    if imp._tree_stage < len(imp._tree.stages):
        return imp._tree.stages[imp._tree_stage]
    return None


def operator_in_force_below(parent):
    if type(parent.token).__name__ == 'SpineOperationToken':
        return parent
    return parent.last_spine_operator_node


@contract(IMP + '_compute_spine_operator_token', props=['C02', 'C06', 'C08', 'C10'])
class compute_spine_operator_token:
    """A spine-operator cell: a fresh node below the cell above (same header); '*^' / '*+' give two paths, '*-' none, '*v' one path
    unless the cell to the left is a '*v' of the same spine (then the join continues); the cancelled operator is recorded."""
    def inputs(g):
        # the cells of the row above: ordinary cells without / with an operator still open on their path, or operator cells themselves
        # (two operator records on consecutive lines)
        above = g.choice('row above', ['cells', 'cells below an open operator', 'operators'])
        imp = mk_full_importer(g, above == 'cells below an open operator', parents='operators' if above == 'operators' else 'cells')
        col = g.int('column', 0)
        row = g.seq('row', lambda e: e.str_sym('cell', ['*v', '*v', '*', '*^', '*-']))
        g.assume(col < len(row))
        return {'self': imp, 'column_index': col, 'column_content': g.choice('op', ['*-', '*^', '*+', '*v', '*x']), 'row': row,
                '_next_before': imp._next_stage_parents.copy()}

    def requires(self):
        return self._tree_stage <= len(self._tree.stages)

    def modifies_objs(self, column_index):
        parent = self._prev_stage_parents[column_index]
        out = [self._next_stage_parents, self._tree.stages, parent.children, 'Node.NextID']
        if stage_list(self) is not None:
            out.append(stage_list(self))
        if parent.last_spine_operator_node is not None:
            out.append(parent.last_spine_operator_node.token)
        if type(parent.token).__name__ == 'SpineOperationToken':
            out.append(parent.token)
        return out


    def post_paths(self, column_index, column_content, row, next_before):
        nxt = self._next_stage_parents
        parent = self._prev_stage_parents[column_index]
        if column_content == '*-':
            return nxt == next_before
        if column_content == '*^' or column_content == '*+':
            if len(nxt) != len(next_before) + 2:
                return False
            node = nxt[-1]
            return conj(len(nxt) == len(next_before) + 2, nxt[-2] is node, node.parent is parent, node.header_node is parent.header_node,
                        node.token.encoding == column_content, node.stage == self._tree_stage)
        # '*v'
        continues_join = False
        if column_index > 0:
            left = self._prev_stage_parents[column_index - 1]
            # 'same spine' is decided by the header node's id (Node.__eq__ compares ids; ids are unique per node)
            continues_join = conj(row[column_index - 1] == '*v', left.header_node.id == parent.header_node.id)
        if continues_join:
            return nxt == next_before
        if len(nxt) != len(next_before) + 1:
            return False
        node = nxt[-1]
        return conj(nxt[:-1] == next_before, node.parent is parent, node.header_node is parent.header_node, node.stage == self._tree_stage)

    def post_cancels_the_pending_operator(self, column_index, column_content):
        # every join cell and every terminator closes the operator its path descends from (C08 reads cancelled_at_stage to decide
        # which operator rows an excerpt has to replay)
        parent = self._prev_stage_parents[column_index]
        pending = operator_in_force_below(parent)
        if pending is None or (column_content != '*v' and column_content != '*-'):
            return True
        return pending.token.cancelled_at_stage == self._tree_stage

    def post_signatures_in_force_come_from_the_cell_above(self, column_index):
        # the new cell starts from the signatures in force at the cell above it on its own path (its own copy of that table) -- not from
        # those of the operator that opened the split, which the voices may have replaced since (C10: the clef in force)
        parent = self._prev_stage_parents[column_index]
        node = parent.children[-1]
        return conj(node.last_signature_nodes is not parent.last_signature_nodes,
                    len(node.last_signature_nodes.nodes) == len(parent.last_signature_nodes.nodes))

    def post_operator_in_force(self, column_index):
        # the new cell descends from the operator in force below the cell above: that cell itself when it is an operator (two operator
        # records on consecutive lines), else the operator its path already descends from
        parent = self._prev_stage_parents[column_index]
        return parent.children[-1].last_spine_operator_node is operator_in_force_below(parent)

    def raises(self, column_index, column_content):
        return {'Exception': disj(column_index >= len(self._prev_stage_parents), column_content == '*x')}


def temp_score_file():
    import os
    import tempfile
    d = tempfile.mkdtemp(prefix='pyvc_')
    p = os.path.join(d, 'score.krn')
    with open(p, 'w', encoding='utf-8', newline='') as f:
        f.write('**kern\t**text\n4c\t"quoted"\n4d\t"open\n*-\t*-\n')
    return p


@contract(IMP + 'import_file', props=['C02', 'C12', 'C20'])
class import_file:
    """the file is opened for reading (utf-8, universal newlines off) and read with the same literal tab reader as import_string"""
    uses = ('importer_run_summary',)
    def inputs(g):
        return {'self': mk_importer(g), 'file_path': g.ext('path', temp_score_file)}

    def post_runs_on_literal_rows(result, self):
        return result is self._document

    def post_reads_the_given_file(file_path):
        from pyvc.ghost import ghost_events
        opens = [e for e in ghost_events() if e[1] == 'open']
        return conj(len(opens) == 1, opens[0][2][0] is file_path, opens[0][2][1] == 'r', opens[0][3].get('encoding') == 'utf-8',
                    opens[0][3].get('newline') == '')
