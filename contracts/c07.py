"""C07 -- measure ranges partition the score (DESIGN 4.7): the validator and the range-to-stage arithmetic."""
from pyvc.contract import contract
from pyvc.ghost import ite, conj, disj, implies, iff
from contracts.shapes import mk_options_range, mk_document_index
from kernpy.core.exporter import Exporter, ExportOptions

EX = 'kernpy.core.exporter.'


@contract(EX + 'Exporter.export_options_validator', props=['C07'])
class export_options_validator:
    """ValueError iff from_measure < 0, or to_measure > M, or to_measure < from_measure (nothing is clamped); otherwise returns
    normally and changes nothing.  M = number of measure starts of the document."""
    def inputs(g):
        return {'cls': Exporter, 'document': mk_document_index(g), 'options': mk_options_range(g)}

    modifies = ()

    def raises(document, options):
        a, b = options.from_measure, options.to_measure
        M = len(document.measure_start_tree_stages)
        return {'ValueError': disj(conj(a is not None, False if a is None else a < 0),
                                   conj(b is not None, False if b is None else b > M),
                                   conj(a is not None, b is not None, False if (a is None or b is None) else b < a))}

    def model(document, options):
        return None


# ------------------------------------------------------------------------------------------------ the range-to-stage arithmetic of export_string
from contracts.shapes import mk_tree


def mk_indexed_document(g, node_builder=None):
    """a Document as Importer.run leaves it: any number of stages, M measure starts at strictly increasing stages inside the tree"""
    from kernpy.core.document import Document
    tree = mk_tree(g, node_builder)
    # the document invariant of Importer.run: every measure start is a stage of the tree (after the root stage), strictly increasing
    mst = g.seq('mst', lambda e: e.int('stage', 1), lambda s: s < len(tree.stages), lambda a, b: a < b)
    return g.new(Document, {'tree': tree, 'measure_start_tree_stages': mst, 'page_bounding_boxes': {}, 'header_stage': 1}, None)


@contract(EX + 'Exporter.export_string', props=['C07', 'C19', 'C14'], name='export_string_range', use_at_calls=False)
class export_string_range:
    """At the head of the body loop: from_stage is the stage of the barline that opens from_measure (0 when no start is given) and
    to_stage is the stage of the barline that closes to_measure when a later measure exists, otherwise the last stage -- for every
    number of stages and measures (the loops that rebuild the preamble are over-approximated: they do not assign these two locals).
    Frame (C14): on the way to the body loop nothing that existed before the call is written -- the statements that are followed are
    checked write by write, the over-approximated loops by syntactic ownership (every mutating call / store in them goes to a
    container the function itself created)."""
    cut = 'for stage in range('
    witness_via = ('measure_ranges_partition', 'read_only_api_is_pure')

    def inputs(g):
        doc = mk_indexed_document(g)
        a = None if g.choice('from.none', [True, False]) else g.int('from_measure')
        b = None if g.choice('to.none', [True, False]) else g.int('to_measure')
        ids = None if g.choice('spine_ids.none', [True, False]) else g.int_set('spine_ids')
        o = g.new(ExportOptions, {'spine_types': ['**kern'], 'from_measure': a, 'to_measure': b, 'token_categories': [], 'kern_type': None,
                                  'instruments': None, 'show_measure_numbers': False, 'spine_ids': ids}, None)
        return {'self': g.new(Exporter, {}, ()), 'document': doc, 'options': o}

    def requires(document, options):
        # the document invariant of Importer.run (every measure start is a stage of the tree) and C07's domain for an open end
        M = len(document.measure_start_tree_stages)
        n = len(document.tree.stages)
        a, b = options.from_measure, options.to_measure
        return conj(n >= 1, True if a is None else a <= M)

    def cut_from_stage(document, options, from_stage):
        a = options.from_measure
        if a is None or a == 0:
            return from_stage == 0
        return from_stage == document.measure_start_tree_stages[a - 1]

    def cut_to_stage(document, options, to_stage):
        b = options.to_measure
        M = len(document.measure_start_tree_stages)
        if b is None or b >= M:
            return to_stage == len(document.tree.stages) - 1
        return to_stage == document.measure_start_tree_stages[b]
