"""C07 -- measure ranges partition the score (DESIGN 4.7): the validator and the range-to-stage arithmetic."""
from pyvc.contract import contract
from pyvc.ghost import ite, conj, disj, implies, iff
from contracts.shapes import mk_options_range, mk_document_index
from kernpy.core.exporter import Exporter, ExportOptions

EX = 'kernpy.core.exporter.'


@contract(EX + 'Exporter.export_options_validator', props=['C07'])
class export_options_validator:
    """ValueError iff from_measure < 0, or to_measure > M, or to_measure < from_measure (nothing is clamped); otherwise returns
    normally and changes nothing.  M = number of measure starts of the document."""
    def inputs(g):
        return {'cls': Exporter, 'document': mk_document_index(g), 'options': mk_options_range(g)}

    modifies = ()

    def raises(document, options):
        a, b = options.from_measure, options.to_measure
        M = len(document.measure_start_tree_stages)
        return {'ValueError': disj(conj(a is not None, False if a is None else a < 0),
                                   conj(b is not None, False if b is None else b > M),
                                   conj(a is not None, b is not None, False if (a is None or b is None) else b < a))}

    def model(document, options):
        return None
