"""C08 -- the cancellation test of the measure-range export (DESIGN 4.8): Exporter.is_signature_cancelled.

When an excerpt starts in the middle of the score the exporter recovers the clef / key / meter in force and omits the ones that are
restated inside the excerpt before any note of that spine.  The test is a recursive walk of the spine tree; its contract is the
recursive equation it has to satisfy (one unfolding: the recursive calls are used through the same contract, as an uninterpreted
function R of (signature class, node, first stage, last stage))."""
from pyvc.contract import contract
from pyvc.ghost import conj, disj, implies, iff, uf_bool, symbolic_run
from contracts.shapes import mk_tree_node, mk_node, mk_any_token, mk_simple_like
from kernpy.core.exporter import Exporter
from kernpy.core.document import Node
from kernpy.core.tokens import (NoteRestToken, ChordToken, ClefToken, KeySignatureToken, TimeSignatureToken, MeterSymbolToken, KeyToken)

EX = 'kernpy.core.exporter.'
SIG_CLASSES = {'ClefToken': ClefToken, 'KeySignatureToken': KeySignatureToken, 'TimeSignatureToken': TimeSignatureToken,
               'MeterSymbolToken': MeterSymbolToken, 'KeyToken': KeyToken}
SIG_TEXT = {'ClefToken': '*clefG2', 'KeySignatureToken': '*k[f#]', 'TimeSignatureToken': '*M3/4', 'MeterSymbolToken': '*met(c)', 'KeyToken': '*C:'}


def mk_sig_token(g, cls_name):
    return g.new(SIG_CLASSES[cls_name], {'encoding': SIG_TEXT[cls_name], 'hidden': False}, (SIG_TEXT[cls_name],))


def restated(sig_class, node, first, last):
    """reference (native runs): the signature class is restated at `node` or below it, at most last - first stages further down,
    on a path that does not pass a note or a chord"""
    if type(node.token).__name__ == sig_class:
        return True
    if isinstance(node.token, (NoteRestToken, ChordToken)):
        return False
    if first < last:
        return any(c.stage <= last and restated(sig_class, c, c.stage, last) for c in node.children)
    return False


def R(sig_class, node, first, last):
    if symbolic_run():
        return uf_bool('restated', sig_class, node.id, first, last)
    return restated(sig_class, node, first, last)


def subtree(rng, depth, stage=1):
    """native runs: a small random spine tree below a child (signatures, notes and other tokens, up to `depth` more levels)"""
    from pyvc.contract import ConcreteFactory
    f = ConcreteFactory({}, rng=rng)
    kind = rng.choice(sorted(SIG_CLASSES) + ['note', 'SimpleToken', 'SimpleToken', 'BarToken'])
    n = Node.__new__(Node)
    n.id = rng.randrange(1000)
    n.stage = stage
    n.token = mk_sig_token(f, kind) if kind in SIG_CLASSES else mk_any_token(f, kind, 'child')
    n.children = [subtree(rng, depth - 1, stage + rng.choice([1, 1, 2])) for _ in range(rng.choice([0, 1, 1, 2]))] if depth > 0 else []
    return n


def mk_walk_node(g, token):
    """a node with an arbitrary list of children.  Symbolic runs never look into a child (the recursive call is used by contract);
    native runs need real children: leaves with a random token"""
    import random as _random

    def child(e):
        if e.symbolic:
            return e.new(Node, {'id': e.int('id'), 'stage': e.int('stage')}, None)
        return subtree(_random.Random(e.int('id')), 3, 1)
    kids = g.mlist('node.children', child)
    n = g.new(Node, {'id': g.int('node.id', 1), 'token': token, 'parent': None, 'children': kids, 'stage': 0, 'header_node': None,
                     'last_signature_nodes': None, 'last_spine_operator_node': None}, None)
    if not hasattr(n, 'fields'):
        n.id, n.token, n.parent, n.children, n.stage, n.header_node = 1, token, None, kids, 0, None
    return n


@contract(EX + 'Exporter.is_signature_cancelled', props=['C08'])
class is_signature_cancelled:
    """R(s, n, a, b)  <=>  class(n) = class(s)  or  (n is neither a note nor a chord, a < b, and R(s, c, stage(c), b) for some child c
    of n with stage(c) <= b).  So the look-ahead sees exactly the nodes whose stage is within the excerpt (rows that belong to no
    spine -- global comments -- take a stage too: a depth counter would run past the end), follows every sub-spine, and a signature
    counts as restated only if no note or chord of that spine comes before the restatement."""
    modifies = ('self.**',)

    def inputs(g):
        sig = g.choice('signature', sorted(SIG_CLASSES))
        kind = g.choice('node', sorted(SIG_CLASSES) + ['note', 'chord', 'SimpleToken', 'BarToken', 'SpineOperationToken', 'FieldCommentToken'])
        token = mk_sig_token(g, kind) if kind in SIG_CLASSES else mk_any_token(g, kind)
        return {'self': g.new(Exporter, {}, ()), 'signature_node': mk_node(g, mk_sig_token(g, sig), None, None, 5),
                'node': mk_walk_node(g, token), 'from_stage': g.int('from_stage'), 'to_stage': g.int('to_stage'), '_sig': sig}

    def model(signature_node, node, from_stage, to_stage):
        return R(type(signature_node.token).__name__, node, from_stage, to_stage)

    def post_recursive_equation(result, node, from_stage, to_stage, sig):
        same = type(node.token).__name__ == sig
        stops = isinstance(node.token, (NoteRestToken, ChordToken))
        below = len([c for c in node.children if conj(c.stage <= to_stage, R(sig, c, c.stage, to_stage))]) > 0
        return iff(bool(result), disj(same, conj(not stops, from_stage < to_stage, below)))


# ------------------------------------------------------------------------------------------------ after the row loop of export_string
from kernpy.core.exporter import ExportOptions as _ExportOptions


def live_after(row):
    """number of spine paths that leave a row (the reference spine-path rules): a split leaves two, an ended spine none, adjacent
    join cells merge into one, everything else one"""
    n = 0
    for i, c in enumerate(row):
        if c == '*^':
            n += 2
        elif c == '*-':
            n += 0
        elif c == '*v' and i > 0 and row[i - 1] == '*v':
            n += 0
        else:
            n += 1
    return n


def is_placeholder_row(row):
    return all(c in ('.', '*', '') for c in row)


@contract(EX + 'Exporter.export_string', props=['C08', 'C03', 'C01'], name='export_string_tail')
class export_string_tail:
    """The statements after the row loop of export_string (tail contract), from the rows collected so far: the text is the rows in
    order, cells joined by tabs, one line each, rows of placeholders left out, nothing else dropped or reordered (C03 / C01); when an
    end measure is given and the last row is not already a terminator row, one terminator row follows, with exactly one '*-' per
    spine path that leaves the last row (C08: every spine is terminated and the cell count is consistent with the spine operators).
    Domain: 0..2 rows collected; the last row has 1..3 cells drawn from split / join / terminator / null interpretation / barline /
    data and obeys the spine-path rules (a join cell has a join cell next to it); the row before it has any texts."""
    tail = 'for stage in range('
    assumes = ('domain: at most two rows in the state, the last one of at most three cells (the rows are Python lists here; rows of any '
               'length: export_string_stage_step, empty_row)',)

    def inputs(g):
        nrows = g.choice('rows', [0, 1, 2])
        rows = []
        if nrows == 2:
            rows.append([g.choice('row0.cell0', ['4c', '.'])])          # an earlier row: kept, or left out as a row of placeholders
        if nrows > 0:
            ncells = g.choice('last.cells', [1, 2, 3])
            last = []
            for j in range(ncells):
                last.append(g.choice(f'last.cell{j}', ['*^', '*v', '*-', '*', '4c']))
            rows.append(last)
        to_measure = None if g.choice('to.none', [True, False]) else g.int('to_measure')
        o = g.new(_ExportOptions, {'spine_types': ['**kern'], 'from_measure': None, 'to_measure': to_measure, 'token_categories': [], 'kern_type': None,
                                   'instruments': None, 'show_measure_numbers': False, 'spine_ids': None}, None)
        return {'self': g.new(Exporter, {}, ()), 'document': None, 'options': o, 'rows': rows, '_before': [list(r) for r in rows]}

    modifies = ('rows', 'self.**')

    def requires(before):
        if len(before) == 0:
            return True
        last = before[-1]
        for i, c in enumerate(last):
            if c == '*v' and not ((i > 0 and last[i - 1] == '*v') or (i + 1 < len(last) and last[i + 1] == '*v')):
                return False
        return True

    def post_text_is_the_rows_and_one_terminator_row(result, options, before):
        rows = [list(r) for r in before]
        if options.to_measure is not None and len(rows) > 0 and rows[-1][0] != '*-':
            rows.append(['*-'] * live_after(rows[-1]))
        want = ''
        for r in rows:
            if not is_placeholder_row(r):
                want = want + '\t'.join(r) + '\n'
        return result == want


# ------------------------------------------------------------------------------------------------ the backwards walk that recovers the header rows
from pyvc.ghost import uf_str
from kernpy.core.tokens import HeaderToken, SpineOperationToken, SimpleToken, TokenCategory
from kernpy.core.tokenizers import Encoding as _Encoding

TOK = 'kernpy.core.tokens.'
A_WALK = ('abstraction for the walk step: export_token(node, options) is a function of the node (what it is: contract export_token); '
          'whether a spine operator was cancelled before the excerpt is a property of the operator token (contract is_cancelled_at)')


@contract(TOK + 'SpineOperationToken.is_cancelled_at', props=['C08'])
class is_cancelled_at:
    """an operator counts as cancelled at a stage iff a cancellation stage is recorded and it lies strictly before that stage"""
    def inputs(g):
        at = None if g.choice('cancelled.none', [True, False]) else g.int('cancelled_at_stage')
        tok = g.new(SpineOperationToken, {'encoding': g.choice('encoding', ['*^', '*v', '*-']), 'category': TokenCategory.SPINE_OPERATION, 'hidden': False,
                                          'cancelled_at_stage': at}, None)
        return {'self': tok, 'stage': g.int('stage')}

    modifies = ()

    def post_recorded_and_earlier(result, self, stage):
        if self.cancelled_at_stage is None:
            return result == False
        return result == (self.cancelled_at_stage < stage)


@contract(TOK + 'SpineOperationToken.is_cancelled_at', props=['C08'], name='is_cancelled_at_summary', local=True, assumed=A_WALK)
class is_cancelled_at_summary:
    def model(self, stage):
        return self.cancelled_before


@contract(EX + 'Exporter.export_token', props=['C08'], name='export_token_summary_for_walk', local=True, assumed=A_WALK)
class export_token_summary_for_walk:
    def model(node, options):
        return uf_str('walk.cell', node.id)


def WALK_TEXT(node, options):
    if symbolic_run():
        return uf_str('walk.cell', node.id)
    return Exporter().export_token(node, options)


def CANCELLED_BEFORE(tok, stage):
    if symbolic_run():
        return tok.cancelled_before
    return tok.is_cancelled_at(stage)


def is_op(node):
    return isinstance(node.token, SpineOperationToken)


def header_selected(node, options):
    return isinstance(node.token, HeaderToken) and node.token.encoding in options.spine_types


def cancelled_operator(node, from_stage):
    return is_op(node) and (CANCELLED_BEFORE(node.token, from_stage) or node.last_spine_operator_node.token.cancelled_at_stage == node.stage)


def walk_cell(node, options, from_stage, operator_row):
    """the text a node contributes to the recovered row ('' = nothing): the header of a selected spine type; in an operator record a
    null interpretation for an operator that was cancelled before the excerpt (or that closes the split its own spine opened),
    otherwise the exported token; in any other record nothing"""
    return (WALK_TEXT(node, options) if header_selected(node, options)
            else (('*' if cancelled_operator(node, from_stage) else WALK_TEXT(node, options)) if operator_row else ''))


def walk_counts(node, options, from_stage, operator_row):
    """does the node make its row worth keeping (anything but a placeholder written for a cancelled operator)?"""
    return header_selected(node, options) or (operator_row and not cancelled_operator(node, from_stage))


def mk_recovery_node(e):
    tok = e.new_any('token', [HeaderToken, SpineOperationToken, SimpleToken],
                    {'encoding': e.str_sym('encoding', ['**kern', '**text', '*^', '*v', '*', '4c']), 'category': e.enum('category', TokenCategory), 'hidden': False,
                     'cancelled_at_stage': e.int('cancelled_at_stage'), 'cancelled_before': e.bool('cancelled_before'), 'spine_id': e.int('spine_id', 0)})
    optok = e.new(SpineOperationToken, {'encoding': '*^', 'category': TokenCategory.SPINE_OPERATION, 'hidden': False, 'cancelled_at_stage': e.int('op.cancelled_at_stage')}, None)
    op = e.new(Node, {'id': e.int('op.id', 1), 'token': optok}, None)
    parent = e.new(Node, {'id': e.int('parent.id', 0)}, None)
    from kernpy.core.document import SignatureNodes
    return e.new(Node, {'id': e.int('id', 1), 'token': tok, 'parent': parent, 'stage': e.int('stage', 1), 'last_spine_operator_node': op,
                        'children': [], 'header_node': None, 'last_signature_nodes': e.new(SignatureNodes, {'nodes': {}}, None)}, None)


@contract(EX + 'Exporter.export_string', props=['C08'], name='export_string_walk_step')
class export_string_walk_step:
    """One iteration of the backwards walk that rebuilds the header rows of a measure excerpt (`while next_nodes and ...`), from an
    arbitrary row of nodes: the walk moves to the parents of the nodes, in order, one parent per node; the row recovered from the
    nodes is the list of their contributions (walk_cell), in order; it is put in front of the rows recovered so far iff some node
    counts (walk_counts); the rows recovered before are untouched.  Domain: every node has an operator above it (the clause about
    the operator that closes its own split reads it)."""
    step = 'while next_nodes and'
    uses = ('is_cancelled_at_summary', 'export_token_summary_for_walk')
    assumes = (A_WALK, 'domain: nodes with a spine operator above them; a non-empty row of nodes that is not the root row')

    def inputs(g):
        nodes = g.seq('next_nodes', mk_recovery_node)
        g.assume(len(nodes) > 0)
        from contracts.shapes import mk_tree
        from kernpy.core.document import Document
        tree = mk_tree(g)
        document = g.new(Document, {'tree': tree, 'measure_start_tree_stages': [], 'page_bounding_boxes': {}, 'header_stage': None}, None)
        options = g.new(_ExportOptions, {'spine_types': g.str_subset('spine_types', ['**kern', '**text']), 'from_measure': 1, 'to_measure': None, 'token_categories': list(TokenCategory),
                                         'kern_type': _Encoding.normalizedKern, 'instruments': None, 'show_measure_numbers': False, 'spine_ids': None}, None)
        rows = [[g.str_sym('rows[0][0]', ['*clefG2', '4c'])]]
        return {'self': g.new(Exporter, {}, ()), 'document': document, 'options': options, 'rows': rows, 'next_nodes': nodes, 'from_stage': g.int('from_stage', 1),
                'to_stage': g.int('to_stage', 1), '_row_of_nodes': nodes, '_before': list(rows)}

    modifies = ('rows', 'self.**')

    def post_walk_moves_to_the_parents(next_nodes, row_of_nodes):
        return next_nodes == [n.parent for n in row_of_nodes]

    def post_row_recovered_in_front(rows, before, row_of_nodes, options, from_stage):
        operator_row = len([n for n in row_of_nodes if is_op(n)]) > 0
        want = [walk_cell(n, options, from_stage, operator_row) for n in row_of_nodes if walk_cell(n, options, from_stage, operator_row) != '']
        keep = False
        for n in row_of_nodes:
            if walk_counts(n, options, from_stage, operator_row):
                keep = True
        if keep:
            if len(rows) != len(before) + 1:
                return False
            return conj(rows[0] == want, rows[1:] == before)
        return rows == before

    def post_loop_goes_on(flow):
        return flow == 'next'


from contracts.c07 import mk_indexed_document


def mk_row_node(e, with_op):
    from kernpy.core.document import SignatureNodes
    tok = e.new(SimpleToken, {'encoding': e.str_sym('encoding', ['4c', '=', '*']), 'category': e.enum('category', TokenCategory), 'hidden': False}, None)
    op = None
    if with_op:
        optok = e.new(SpineOperationToken, {'encoding': '*^', 'category': TokenCategory.SPINE_OPERATION, 'hidden': False, 'cancelled_at_stage': e.int('op.cancelled_at_stage')}, None)
        op = e.new(Node, {'id': e.int('op.id', 1), 'token': optok}, None)
    return e.new(Node, {'id': e.int('id', 1), 'token': tok, 'parent': e.new(Node, {'id': e.int('parent.id', 0)}, None), 'stage': e.int('stage', 1),
                        'last_spine_operator_node': op, 'children': [], 'header_node': None, 'last_signature_nodes': e.new(SignatureNodes, {'nodes': {}}, None)}, None)


def mk_row_node_without_operator(e):
    return mk_row_node(e, False)


def mk_row_node_with_operator(e):
    return mk_row_node(e, True)


@contract(EX + 'Exporter.export_string', props=['C08'], name='export_string_walk_head', use_at_calls=False)
class export_string_walk_head:
    """At the head of the backwards walk (an excerpt that does not start at the beginning): the walk starts at the very row of nodes
    that opens the first measure of the excerpt -- the stage recorded for that measure in the document's measure index -- and no row
    has been recovered yet.  (With export_string_walk_step: every recovered row stems from the cells above that row, on their own
    spine paths, and from nothing else.)"""
    cut = 'while next_nodes and'

    def inputs(g):
        doc = mk_indexed_document(g, mk_row_node_without_operator if g.choice('operators above', ['none', 'some']) == 'none' else mk_row_node_with_operator)
        a = g.int('from_measure', 1)
        b = None if g.choice('to.none', [True, False]) else g.int('to_measure')
        ids = None if g.choice('spine_ids.none', [True, False]) else g.int_set('spine_ids')
        o = g.new(_ExportOptions, {'spine_types': ['**kern'], 'from_measure': a, 'to_measure': b, 'token_categories': [], 'kern_type': None,
                                   'instruments': None, 'show_measure_numbers': False, 'spine_ids': ids}, None)
        return {'self': g.new(Exporter, {}, ()), 'document': doc, 'options': o}

    def requires(document, options):
        M = len(document.measure_start_tree_stages)
        b = options.to_measure
        return conj(len(document.tree.stages) >= 1, options.from_measure <= M, True if b is None else conj(b >= options.from_measure, b <= M))

    def cut_walk_starts_at_the_row_that_opens_the_excerpt(document, options, from_stage, next_nodes, rows):
        return conj(from_stage == document.measure_start_tree_stages[options.from_measure - 1], next_nodes is document.tree.stages[from_stage], len(rows) == 0)


# ------------------------------------------------------------------------------------------------ the signature rows of an excerpt
def mk_signed_node(g):
    """a node of the first row of the excerpt with any subset of clef / key signature / meter in force above it"""
    from kernpy.core.document import SignatureNodes
    sigs = {}
    for cls_name in ('ClefToken', 'KeySignatureToken', 'TimeSignatureToken'):
        if g.choice('in force.' + cls_name, [True, False]):
            sigs[cls_name] = mk_node(g, mk_sig_token(g, cls_name), None, None, 5 + len(sigs))
    tok = mk_any_token(g, 'BarToken')
    n = g.new(Node, {'id': g.int('node.id', 1), 'token': tok, 'parent': None, 'children': [], 'stage': g.int('node.stage', 1), 'header_node': None,
                     'last_signature_nodes': g.new(SignatureNodes, {'nodes': sigs}, None), 'last_spine_operator_node': None}, None)
    return n, sigs


@contract(EX + 'Exporter.is_signature_cancelled', props=['C08'], name='is_signature_cancelled_summary', local=True,
          assumed='is_signature_cancelled(s, n, a, b) is the relation R of contract is_signature_cancelled (verified there)')
class is_signature_cancelled_summary:
    def model(signature_node, node, from_stage, to_stage):
        return R(type(signature_node.token).__name__, node, from_stage, to_stage)


@contract(EX + 'Exporter.export_string', props=['C08'], name='export_string_signature_step')
class export_string_signature_step:
    """One iteration of the loop that collects the signatures in force at the start of an excerpt (`for node in
    document.tree.stages[from_stage]`), for an arbitrary node of that row and any signatures recorded so far: the node contributes the
    exported texts of the signatures in force above it that are not restated inside the excerpt (relation R), in the order they came
    into force; a node without such a signature contributes nothing; the contributions are collected in the order of the nodes, the
    earlier ones untouched; a node that contributes a different number of signatures than the first one is refused with an
    exception (the known finding 'unequal signature sets' is this branch)."""
    step = 'for node in document.tree.stages[from_stage]'
    uses = ('export_token_summary_for_walk', 'is_signature_cancelled_summary')
    assumes = (A_WALK,)

    def inputs(g):
        node, sigs = mk_signed_node(g)
        state = g.choice('collected so far', ['nothing', 'one spine'])
        first = None
        if state == 'one spine':
            count = g.choice('first.count', [1, 2, 3])
            first = []
            for k in range(count):
                first.append(g.str_sym(f'first.{k}', ['*clefF4', '*k[b-]', '*M4/4']))
        from kernpy.core.document import Document
        from contracts.shapes import mk_tree
        document = g.new(Document, {'tree': mk_tree(g), 'measure_start_tree_stages': [], 'page_bounding_boxes': {}, 'header_stage': None}, None)
        options = g.new(_ExportOptions, {'spine_types': ['**kern'], 'from_measure': 1, 'to_measure': None, 'token_categories': list(TokenCategory),
                                         'kern_type': _Encoding.normalizedKern, 'instruments': None, 'show_measure_numbers': False, 'spine_ids': None}, None)
        collected = None if first is None else [first]
        return {'self': g.new(Exporter, {}, ()), 'document': document, 'options': options, 'rows': [], 'node': node, 'from_stage': g.int('from_stage', 1),
                'to_stage': g.int('to_stage', 1), 'node_signatures': collected, '_sigs': sigs, '_first': first}

    modifies = ('node_signatures', 'self.**')

    def _mine(node, sigs, options, from_stage, to_stage):
        mine = []
        for cls_name, s in sigs.items():
            if not R(cls_name, node, from_stage, to_stage):
                mine.append(WALK_TEXT(s, options))
        return mine

    def raises(node, sigs, options, from_stage, to_stage, first):
        mine = export_string_signature_step._mine(node, sigs, options, from_stage, to_stage)
        return {'Exception': conj(first is not None, len(mine) > 0, False if first is None else len(first) != len(mine))}

    def post_contribution_collected_in_order(node_signatures, node, sigs, options, from_stage, to_stage, first):
        mine = export_string_signature_step._mine(node, sigs, options, from_stage, to_stage)
        if len(mine) == 0:
            return node_signatures is None if first is None else node_signatures == [first]
        if first is None:
            return node_signatures == [mine]
        return node_signatures == [first, mine]

    def post_loop_goes_on(flow):
        return flow == 'next'


@contract(EX + 'Exporter.export_string', props=['C08'], name='export_string_signature_rows')
class export_string_signature_rows:
    """Segment contract: from the end of the signature-collection loop to the head of the row loop.  The signatures collected per
    spine (one list per contributing node, all of the same length: the collection step refuses anything else) are laid out as rows:
    row i holds the i-th signature of every contributing node, in the order of the nodes; these rows follow the rows recovered by the
    backwards walk, which are untouched; nothing is added when no signature is in force.  Domain: 0..3 contributing nodes with 1..2
    signatures each."""
    tail = 'for node in document.tree.stages[from_stage]'
    cut = 'for stage in range('
    assumes = ('domain: at most three contributing nodes, at most two signatures each (Python lists)',)

    def inputs(g):
        ncols = g.choice('contributing nodes', [0, 1, 2, 3])
        depth = g.choice('signatures each', [1, 2])
        collected = None
        if ncols > 0:
            collected = []
            for c in range(ncols):
                col = []
                for r in range(depth):
                    col.append(g.str_sym(f'sig.{c}.{r}', ['*clefG2', '*k[f#]', '*M3/4']))
                collected.append(col)
        from kernpy.core.document import Document
        from contracts.shapes import mk_tree
        document = g.new(Document, {'tree': mk_tree(g), 'measure_start_tree_stages': [], 'page_bounding_boxes': {}, 'header_stage': None}, None)
        options = g.new(_ExportOptions, {'spine_types': ['**kern'], 'from_measure': 1, 'to_measure': None, 'token_categories': [], 'kern_type': None,
                                         'instruments': None, 'show_measure_numbers': False, 'spine_ids': None}, None)
        rows = [[g.str_sym('rows[0][0]', ['**kern'])]]
        return {'self': g.new(Exporter, {}, ()), 'document': document, 'options': options, 'rows': rows, 'node_signatures': collected,
                'from_stage': g.int('from_stage', 1), 'to_stage': g.int('to_stage', 1), '_collected': collected, '_before': list(rows), '_depth': depth}

    modifies = ('rows', 'self.**')

    def post_signature_rows_follow_the_recovered_rows(rows, before, collected, depth):
        want = list(before)
        if collected is not None:
            for i in range(depth):
                want.append([col[i] for col in collected])
        return rows == want
