"""C08 -- the cancellation test of the measure-range export (DESIGN 4.8): Exporter.is_signature_cancelled.

When an excerpt starts in the middle of the score the exporter recovers the clef / key / meter in force and omits the ones that are
restated inside the excerpt before any note of that spine.  The test is a recursive walk of the spine tree; its contract is the
recursive equation it has to satisfy (one unfolding: the recursive calls are used through the same contract, as an uninterpreted
function R of (signature class, node, first stage, last stage))."""
from pyvc.contract import contract
from pyvc.ghost import conj, disj, implies, iff, uf_bool, symbolic_run
from contracts.shapes import mk_tree_node, mk_node, mk_any_token, mk_simple_like
from kernpy.core.exporter import Exporter
from kernpy.core.document import Node
from kernpy.core.tokens import (NoteRestToken, ChordToken, ClefToken, KeySignatureToken, TimeSignatureToken, MeterSymbolToken, KeyToken)

EX = 'kernpy.core.exporter.'
SIG_CLASSES = {'ClefToken': ClefToken, 'KeySignatureToken': KeySignatureToken, 'TimeSignatureToken': TimeSignatureToken,
               'MeterSymbolToken': MeterSymbolToken, 'KeyToken': KeyToken}
SIG_TEXT = {'ClefToken': '*clefG2', 'KeySignatureToken': '*k[f#]', 'TimeSignatureToken': '*M3/4', 'MeterSymbolToken': '*met(c)', 'KeyToken': '*C:'}


def mk_sig_token(g, cls_name):
    return g.new(SIG_CLASSES[cls_name], {'encoding': SIG_TEXT[cls_name], 'hidden': False}, (SIG_TEXT[cls_name],))


def restated(sig_class, node, first, last):
    """reference (native runs): the signature class is restated at `node` or below it, at most last - first stages further down,
    on a path that does not pass a note or a chord"""
    if type(node.token).__name__ == sig_class:
        return True
    if isinstance(node.token, (NoteRestToken, ChordToken)):
        return False
    if first < last:
        return any(c.stage <= last and restated(sig_class, c, c.stage, last) for c in node.children)
    return False


def R(sig_class, node, first, last):
    if symbolic_run():
        return uf_bool('restated', sig_class, node.id, first, last)
    return restated(sig_class, node, first, last)


def subtree(rng, depth, stage=1):
    """native runs: a small random spine tree below a child (signatures, notes and other tokens, up to `depth` more levels)"""
    from pyvc.contract import ConcreteFactory
    f = ConcreteFactory({}, rng=rng)
    kind = rng.choice(sorted(SIG_CLASSES) + ['note', 'SimpleToken', 'SimpleToken', 'BarToken'])
    n = Node.__new__(Node)
    n.id = rng.randrange(1000)
    n.stage = stage
    n.token = mk_sig_token(f, kind) if kind in SIG_CLASSES else mk_any_token(f, kind, 'child')
    n.children = [subtree(rng, depth - 1, stage + rng.choice([1, 1, 2])) for _ in range(rng.choice([0, 1, 1, 2]))] if depth > 0 else []
    return n


def mk_walk_node(g, token):
    """a node with an arbitrary list of children.  Symbolic runs never look into a child (the recursive call is used by contract);
    native runs need real children: leaves with a random token"""
    import random as _random

    def child(e):
        if e.symbolic:
            return e.new(Node, {'id': e.int('id'), 'stage': e.int('stage')}, None)
        return subtree(_random.Random(e.int('id')), 3, 1)
    kids = g.mlist('node.children', child)
    n = g.new(Node, {'id': g.int('node.id', 1), 'token': token, 'parent': None, 'children': kids, 'stage': 0, 'header_node': None,
                     'last_signature_nodes': None, 'last_spine_operator_node': None}, None)
    if not hasattr(n, 'fields'):
        n.id, n.token, n.parent, n.children, n.stage, n.header_node = 1, token, None, kids, 0, None
    return n


@contract(EX + 'Exporter.is_signature_cancelled', props=['C08'])
class is_signature_cancelled:
    """R(s, n, a, b)  <=>  class(n) = class(s)  or  (n is neither a note nor a chord, a < b, and R(s, c, stage(c), b) for some child c
    of n with stage(c) <= b).  So the look-ahead sees exactly the nodes whose stage is within the excerpt (rows that belong to no
    spine -- global comments -- take a stage too: a depth counter would run past the end), follows every sub-spine, and a signature
    counts as restated only if no note or chord of that spine comes before the restatement."""
    modifies = ('self.**',)

    def inputs(g):
        sig = g.choice('signature', sorted(SIG_CLASSES))
        kind = g.choice('node', sorted(SIG_CLASSES) + ['note', 'chord', 'SimpleToken', 'BarToken', 'SpineOperationToken', 'FieldCommentToken'])
        token = mk_sig_token(g, kind) if kind in SIG_CLASSES else mk_any_token(g, kind)
        return {'self': g.new(Exporter, {}, ()), 'signature_node': mk_node(g, mk_sig_token(g, sig), None, None, 5),
                'node': mk_walk_node(g, token), 'from_stage': g.int('from_stage'), 'to_stage': g.int('to_stage'), '_sig': sig}

    def model(signature_node, node, from_stage, to_stage):
        return R(type(signature_node.token).__name__, node, from_stage, to_stage)

    def post_recursive_equation(result, node, from_stage, to_stage, sig):
        same = type(node.token).__name__ == sig
        stops = isinstance(node.token, (NoteRestToken, ChordToken))
        below = len([c for c in node.children if conj(c.stage <= to_stage, R(sig, c, c.stage, to_stage))]) > 0
        return iff(bool(result), disj(same, conj(not stops, from_stage < to_stage, below)))


# ------------------------------------------------------------------------------------------------ after the row loop of export_string
from kernpy.core.exporter import ExportOptions as _ExportOptions


def live_after(row):
    """number of spine paths that leave a row (the reference spine-path rules): a split leaves two, an ended spine none, adjacent
    join cells merge into one, everything else one"""
    n = 0
    for i, c in enumerate(row):
        if c == '*^':
            n += 2
        elif c == '*-':
            n += 0
        elif c == '*v' and i > 0 and row[i - 1] == '*v':
            n += 0
        else:
            n += 1
    return n


def is_placeholder_row(row):
    return all(c in ('.', '*', '') for c in row)


@contract(EX + 'Exporter.export_string', props=['C08', 'C03', 'C01'], name='export_string_tail')
class export_string_tail:
    """The statements after the row loop of export_string (tail contract), from the rows collected so far: the text is the rows in
    order, cells joined by tabs, one line each, rows of placeholders left out, nothing else dropped or reordered (C03 / C01); when an
    end measure is given and the last row is not already a terminator row, one terminator row follows, with exactly one '*-' per
    spine path that leaves the last row (C08: every spine is terminated and the cell count is consistent with the spine operators).
    Domain: 0..2 rows collected; the last row has 1..3 cells drawn from split / join / terminator / null interpretation / barline /
    data and obeys the spine-path rules (a join cell has a join cell next to it); the row before it has any texts."""
    tail = 'for stage in range('
    assumes = ('domain: at most two rows in the state, the last one of at most three cells (the rows are Python lists here; rows of any '
               'length: export_string_stage_step, empty_row)',)

    def inputs(g):
        nrows = g.choice('rows', [0, 1, 2])
        rows = []
        if nrows == 2:
            rows.append([g.choice('row0.cell0', ['4c', '.'])])          # an earlier row: kept, or left out as a row of placeholders
        if nrows > 0:
            ncells = g.choice('last.cells', [1, 2, 3])
            last = []
            for j in range(ncells):
                last.append(g.choice(f'last.cell{j}', ['*^', '*v', '*-', '*', '4c']))
            rows.append(last)
        to_measure = None if g.choice('to.none', [True, False]) else g.int('to_measure')
        o = g.new(_ExportOptions, {'spine_types': ['**kern'], 'from_measure': None, 'to_measure': to_measure, 'token_categories': [], 'kern_type': None,
                                   'instruments': None, 'show_measure_numbers': False, 'spine_ids': None}, None)
        return {'self': g.new(Exporter, {}, ()), 'document': None, 'options': o, 'rows': rows, '_before': [list(r) for r in rows]}

    modifies = ('rows', 'self.**')

    def requires(before):
        if len(before) == 0:
            return True
        last = before[-1]
        for i, c in enumerate(last):
            if c == '*v' and not ((i > 0 and last[i - 1] == '*v') or (i + 1 < len(last) and last[i + 1] == '*v')):
                return False
        return True

    def post_text_is_the_rows_and_one_terminator_row(result, options, before):
        rows = [list(r) for r in before]
        if options.to_measure is not None and len(rows) > 0 and rows[-1][0] != '*-':
            rows.append(['*-'] * live_after(rows[-1]))
        want = ''
        for r in rows:
            if not is_placeholder_row(r):
                want = want + '\t'.join(r) + '\n'
        return result == want
