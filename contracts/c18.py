"""C18 -- every spine type imports every token without loss (DESIGN 4.18).

The inner `KernSpineImporter().import_token(cell)` runs on a fresh importer (no history); its outcome is an
uninterpreted function K(cell) in {raise} U Token (assumed contract A-kern-outcome).  One dispatch specification for all
non-kern importers: K(cell) if it is a token of the shared structure, otherwise a SimpleToken carrying the verbatim cell
and the spine type's own category; never an exception for a non-empty string."""
from pyvc.contract import contract
from pyvc.ghost import ite, conj, disj, implies, iff, havoc_bool, havoc_enum, havoc_str, ghost_set, ghost_get, symbolic_run
from contracts.spec_tokens import CELL_CORPUS, shared_structure, same_token
from contracts.shapes import mk_spine_importer
from kernpy.core.tokens import TokenCategory, SimpleToken
from kernpy.core.kern_spine_importer import KernSpineImporter
from kernpy.core.text_spine_importer import TextSpineImporter
from kernpy.core.dynam_spine_importer import DynamSpineImporter
from kernpy.core.dyn_importer import DynSpineImporter
from kernpy.core.harm_spine_importer import HarmSpineImporter
from kernpy.core.mhxm_spine_importer import MxhmSpineImporter
from kernpy.core.fing_spine_importer import FingSpineImporter
from kernpy.core.basic_spine_importer import BasicSpineImporter

A_KERN = ('A-kern-outcome: KernSpineImporter().import_token(cell) on a fresh importer is a function K of the cell alone: it either '
          'raises or returns a token; the kern listener never assigns the categories DYNAMICS, HARMONY, FINGERING, LYRICS')


@contract('kernpy.core.kern_spine_importer.KernSpineImporter.__init__', props=['C18'], assumed='constructs a fresh importer (no history); the ANTLR objects are not modelled')
class kern_importer_init:
    def model(self):
        return None


@contract('kernpy.core.kern_spine_importer.KernSpineImporter.import_token', props=['C18'], assumed=A_KERN)
class kern_import_token:
    def raises(encoding):
        r = havoc_bool('K.raises')
        ghost_set('K.raises', r)
        return {'Exception': r}

    def model(self, encoding):
        tok = SimpleToken.__new__(SimpleToken)
        tok.encoding = havoc_str('K.encoding')
        tok.category = havoc_enum('K.category', TokenCategory)
        tok.hidden = havoc_bool('K.hidden')
        ghost_set('K.token', tok)
        return tok


def kern_outcome(encoding):
    """K(cell): the token the kern importer returns for the cell, None if it raises.  Symbolic runs read the outcome the
    assumed contract produced on this path; native runs ask the real (fresh) kern importer."""
    if symbolic_run():
        if ghost_get('K.raises', None) is not None:
            return ghost_get('K.token', None)          # the outcome the importer saw on this path
        # the importer did not consult the kern parser on this path: K(cell) is still whatever it is
        if havoc_bool('K.raises'):
            return None
        tok = SimpleToken.__new__(SimpleToken)
        tok.encoding = havoc_str('K.encoding')
        tok.category = havoc_enum('K.category', TokenCategory)
        tok.hidden = havoc_bool('K.hidden')
        ghost_set('K.raises', False)
        ghost_set('K.token', tok)
        return tok
    try:
        return KernSpineImporter().import_token(encoding)
    except Exception:
        return None


OWN = {'TextSpineImporter': TokenCategory.LYRICS, 'DynamSpineImporter': TokenCategory.DYNAMICS, 'DynSpineImporter': TokenCategory.DYNAMICS,
       'HarmSpineImporter': TokenCategory.HARMONY, 'MxhmSpineImporter': TokenCategory.HARMONY, 'FingSpineImporter': TokenCategory.FINGERING,
       'BasicSpineImporter': TokenCategory.OTHER}


def dispatch_ok(result, encoding, own):
    k = kern_outcome(encoding)
    if k is not None and shared_structure(k.category):
        return same_token(result, k)
    return conj(type(result).__name__ == 'SimpleToken', result.encoding == encoding, result.category == own)


def k_not_own_family(encoding):
    """part of A-kern-outcome, natively checked in replays"""
    k = kern_outcome(encoding)
    if k is None:
        return True
    return conj(k.category != TokenCategory.DYNAMICS, k.category != TokenCategory.HARMONY, k.category != TokenCategory.FINGERING,
                k.category != TokenCategory.LYRICS)


def importer_contract(cls_name, module):
    def deco(c):
        return contract(f'kernpy.core.{module}.{cls_name}.import_token', props=['C18'], name='import_token_' + cls_name)(c)
    return deco


@importer_contract('TextSpineImporter', 'text_spine_importer')
class it_text:
    assumes = (A_KERN,)

    def inputs(g):
        return {'self': mk_spine_importer(g, TextSpineImporter), 'encoding': g.str_sym('cell', CELL_CORPUS)}

    def requires(encoding):
        return len(encoding) > 0

    def post_dispatch(result, encoding):
        return implies(k_not_own_family(encoding), dispatch_ok(result, encoding, OWN['TextSpineImporter']))


@importer_contract('DynamSpineImporter', 'dynam_spine_importer')
class it_dynam:
    assumes = (A_KERN,)

    def inputs(g):
        return {'self': mk_spine_importer(g, DynamSpineImporter), 'encoding': g.str_sym('cell', CELL_CORPUS)}

    def requires(encoding):
        return len(encoding) > 0

    def post_dispatch(result, encoding):
        return implies(k_not_own_family(encoding), dispatch_ok(result, encoding, OWN['DynamSpineImporter']))


@importer_contract('DynSpineImporter', 'dyn_importer')
class it_dyn:
    assumes = (A_KERN,)

    def inputs(g):
        return {'self': mk_spine_importer(g, DynSpineImporter), 'encoding': g.str_sym('cell', CELL_CORPUS)}

    def requires(encoding):
        return len(encoding) > 0

    def post_dispatch(result, encoding):
        return implies(k_not_own_family(encoding), dispatch_ok(result, encoding, OWN['DynSpineImporter']))


@importer_contract('HarmSpineImporter', 'harm_spine_importer')
class it_harm:
    assumes = (A_KERN,)

    def inputs(g):
        return {'self': mk_spine_importer(g, HarmSpineImporter), 'encoding': g.str_sym('cell', CELL_CORPUS)}

    def requires(encoding):
        return len(encoding) > 0

    def post_dispatch(result, encoding):
        return implies(k_not_own_family(encoding), dispatch_ok(result, encoding, OWN['HarmSpineImporter']))


@importer_contract('MxhmSpineImporter', 'mhxm_spine_importer')
class it_mxhm:
    assumes = (A_KERN,)

    def inputs(g):
        return {'self': mk_spine_importer(g, MxhmSpineImporter), 'encoding': g.str_sym('cell', CELL_CORPUS)}

    def requires(encoding):
        return len(encoding) > 0

    def post_dispatch(result, encoding):
        return implies(k_not_own_family(encoding), dispatch_ok(result, encoding, OWN['MxhmSpineImporter']))


@importer_contract('FingSpineImporter', 'fing_spine_importer')
class it_fing:
    assumes = (A_KERN,)

    def inputs(g):
        return {'self': mk_spine_importer(g, FingSpineImporter), 'encoding': g.str_sym('cell', CELL_CORPUS)}

    def requires(encoding):
        return len(encoding) > 0

    def post_dispatch(result, encoding):
        return implies(k_not_own_family(encoding), dispatch_ok(result, encoding, OWN['FingSpineImporter']))


@importer_contract('BasicSpineImporter', 'basic_spine_importer')
class it_basic:
    assumes = (A_KERN,)

    def inputs(g):
        return {'self': mk_spine_importer(g, BasicSpineImporter), 'encoding': g.str_sym('cell', CELL_CORPUS)}

    def requires(encoding):
        return len(encoding) > 0

    def post_dispatch(result, encoding):
        return implies(k_not_own_family(encoding), dispatch_ok(result, encoding, OWN['BasicSpineImporter']))


HEADER_TO_CLASS = {'**mens': 'MensSpineImporter', '**kern': 'KernSpineImporter', '**text': 'TextSpineImporter', '**harm': 'HarmSpineImporter',
                   '**mxhm': 'MxhmSpineImporter', '**root': 'RootSpineImporter', '**dyn': 'DynSpineImporter', '**dynam': 'DynamSpineImporter',
                   '**fing': 'FingSpineImporter'}


@contract('kernpy.core.importer_factory.createImporter', props=['C18'])
class create_importer:
    """Header -> importer class; every unknown header gets the basic importer."""
    def inputs(g):
        return {'spine_type': g.str_sym('header', list(HEADER_TO_CLASS) + ['**silbe', '**foo', 'kern', ''])}

    def requires(spine_type):
        # **mens is outside C18 (its importer is not implemented: the constructor raises NotImplementedError)
        return spine_type != '**mens'

    def post_class(result, spine_type):
        for h in HEADER_TO_CLASS:
            if spine_type == h:
                return type(result).__name__ == HEADER_TO_CLASS[h]
        return type(result).__name__ == 'BasicSpineImporter'
