"""C18 -- every spine type imports every token without loss (DESIGN 4.18).

The inner `KernSpineImporter().import_token(cell)` runs on a fresh importer (no history); its outcome is an
uninterpreted function K(cell) in {raise} U Token (assumed contract A-kern-outcome).  One dispatch specification for all
non-kern importers: K(cell) if it is a token of the shared structure, otherwise a SimpleToken carrying the verbatim cell
and the spine type's own category; never an exception for a non-empty string."""
from pyvc.contract import contract
from pyvc.ghost import ite, conj, disj, implies, iff, uf_bool, uf_enum, uf_str, symbolic_run
from contracts.spec_tokens import CELL_CORPUS, shared_structure, same_token
from contracts.shapes import mk_spine_importer
from kernpy.core.tokens import TokenCategory, SimpleToken
from kernpy.core.kern_spine_importer import KernSpineImporter
from kernpy.core.text_spine_importer import TextSpineImporter
from kernpy.core.dynam_spine_importer import DynamSpineImporter
from kernpy.core.dyn_importer import DynSpineImporter
from kernpy.core.harm_spine_importer import HarmSpineImporter
from kernpy.core.mhxm_spine_importer import MxhmSpineImporter
from kernpy.core.fing_spine_importer import FingSpineImporter
from kernpy.core.basic_spine_importer import BasicSpineImporter

A_KERN = ('A-kern-outcome: KernSpineImporter().import_token(cell) on a fresh importer is a function K of the cell alone: it either '
          'raises or returns a token; the kern listener never assigns the categories DYNAMICS, HARMONY, FINGERING, LYRICS')


@contract('kernpy.core.kern_spine_importer.KernSpineImporter.__init__', props=['C18'], assumed='constructs a fresh importer (no history); the ANTLR objects are not modelled')
class kern_importer_init:
    def model(self):
        return None


@contract('kernpy.core.kern_spine_importer.KernSpineImporter.import_token', props=['C18'], assumed=A_KERN)
class kern_import_token:
    """K as uninterpreted functions of the cell: the same cell has the same outcome on every call (A-kern-outcome)"""
    def raises(encoding):
        return {'Exception': uf_bool('K.raises', encoding)}

    def model(self, encoding):
        return k_token(encoding)


def k_token(encoding):
    tok = SimpleToken.__new__(SimpleToken)
    tok.encoding = uf_str('K.encoding', encoding)
    tok.category = uf_enum('K.category', TokenCategory, encoding)
    tok.hidden = uf_bool('K.hidden', encoding)
    return tok


def kern_outcome(encoding):
    """K(cell): the token the kern importer returns for the cell, None if it raises.  Symbolic runs: the uninterpreted functions of
    the assumed contract (total: defined whether or not the importer consulted the kern parser); native runs ask the real (fresh)
    kern importer."""
    if symbolic_run():
        if uf_bool('K.raises', encoding):
            return None
        return k_token(encoding)
    try:
        return KernSpineImporter().import_token(encoding)
    except Exception:
        return None


OWN = {'TextSpineImporter': TokenCategory.LYRICS, 'DynamSpineImporter': TokenCategory.DYNAMICS, 'DynSpineImporter': TokenCategory.DYNAMICS,
       'HarmSpineImporter': TokenCategory.HARMONY, 'MxhmSpineImporter': TokenCategory.HARMONY, 'FingSpineImporter': TokenCategory.FINGERING,
       'BasicSpineImporter': TokenCategory.OTHER}


def dispatch_ok(result, encoding, own):
    k = kern_outcome(encoding)
    if k is not None and shared_structure(k.category):
        return same_token(result, k)
    return conj(type(result).__name__ == 'SimpleToken', result.encoding == encoding, result.category == own)


def k_not_own_family(encoding):
    """part of A-kern-outcome, natively checked in replays"""
    k = kern_outcome(encoding)
    if k is None:
        return True
    return conj(k.category != TokenCategory.DYNAMICS, k.category != TokenCategory.HARMONY, k.category != TokenCategory.FINGERING,
                k.category != TokenCategory.LYRICS)


def importer_contract(cls_name, module):
    def deco(c):
        return contract(f'kernpy.core.{module}.{cls_name}.import_token', props=['C18'], name='import_token_' + cls_name)(c)
    return deco


@importer_contract('TextSpineImporter', 'text_spine_importer')
class it_text:
    assumes = (A_KERN,)
    modifies = ('self.**',)       # the importer's own state is not framed: the history lemmas below decide whether it matters

    def inputs(g):
        return {'self': mk_spine_importer(g, TextSpineImporter), 'encoding': g.str_sym('cell', CELL_CORPUS)}

    def requires(encoding):
        return len(encoding) > 0

    def post_dispatch(result, encoding):
        return implies(k_not_own_family(encoding), dispatch_ok(result, encoding, OWN['TextSpineImporter']))


@importer_contract('DynamSpineImporter', 'dynam_spine_importer')
class it_dynam:
    assumes = (A_KERN,)
    modifies = ('self.**',)       # the importer's own state is not framed: the history lemmas below decide whether it matters

    def inputs(g):
        return {'self': mk_spine_importer(g, DynamSpineImporter), 'encoding': g.str_sym('cell', CELL_CORPUS)}

    def requires(encoding):
        return len(encoding) > 0

    def post_dispatch(result, encoding):
        return implies(k_not_own_family(encoding), dispatch_ok(result, encoding, OWN['DynamSpineImporter']))


@importer_contract('DynSpineImporter', 'dyn_importer')
class it_dyn:
    assumes = (A_KERN,)
    modifies = ('self.**',)       # the importer's own state is not framed: the history lemmas below decide whether it matters

    def inputs(g):
        return {'self': mk_spine_importer(g, DynSpineImporter), 'encoding': g.str_sym('cell', CELL_CORPUS)}

    def requires(encoding):
        return len(encoding) > 0

    def post_dispatch(result, encoding):
        return implies(k_not_own_family(encoding), dispatch_ok(result, encoding, OWN['DynSpineImporter']))


@importer_contract('HarmSpineImporter', 'harm_spine_importer')
class it_harm:
    assumes = (A_KERN,)
    modifies = ('self.**',)       # the importer's own state is not framed: the history lemmas below decide whether it matters

    def inputs(g):
        return {'self': mk_spine_importer(g, HarmSpineImporter), 'encoding': g.str_sym('cell', CELL_CORPUS)}

    def requires(encoding):
        return len(encoding) > 0

    def post_dispatch(result, encoding):
        return implies(k_not_own_family(encoding), dispatch_ok(result, encoding, OWN['HarmSpineImporter']))


@importer_contract('MxhmSpineImporter', 'mhxm_spine_importer')
class it_mxhm:
    assumes = (A_KERN,)
    modifies = ('self.**',)       # the importer's own state is not framed: the history lemmas below decide whether it matters

    def inputs(g):
        return {'self': mk_spine_importer(g, MxhmSpineImporter), 'encoding': g.str_sym('cell', CELL_CORPUS)}

    def requires(encoding):
        return len(encoding) > 0

    def post_dispatch(result, encoding):
        return implies(k_not_own_family(encoding), dispatch_ok(result, encoding, OWN['MxhmSpineImporter']))


@importer_contract('FingSpineImporter', 'fing_spine_importer')
class it_fing:
    assumes = (A_KERN,)
    modifies = ('self.**',)       # the importer's own state is not framed: the history lemmas below decide whether it matters

    def inputs(g):
        return {'self': mk_spine_importer(g, FingSpineImporter), 'encoding': g.str_sym('cell', CELL_CORPUS)}

    def requires(encoding):
        return len(encoding) > 0

    def post_dispatch(result, encoding):
        return implies(k_not_own_family(encoding), dispatch_ok(result, encoding, OWN['FingSpineImporter']))


@importer_contract('BasicSpineImporter', 'basic_spine_importer')
class it_basic:
    assumes = (A_KERN,)
    modifies = ('self.**',)       # the importer's own state is not framed: the history lemmas below decide whether it matters

    def inputs(g):
        return {'self': mk_spine_importer(g, BasicSpineImporter), 'encoding': g.str_sym('cell', CELL_CORPUS)}

    def requires(encoding):
        return len(encoding) > 0

    def post_dispatch(result, encoding):
        return implies(k_not_own_family(encoding), dispatch_ok(result, encoding, OWN['BasicSpineImporter']))


HEADER_TO_CLASS = {'**mens': 'MensSpineImporter', '**kern': 'KernSpineImporter', '**text': 'TextSpineImporter', '**harm': 'HarmSpineImporter',
                   '**mxhm': 'MxhmSpineImporter', '**root': 'RootSpineImporter', '**dyn': 'DynSpineImporter', '**dynam': 'DynamSpineImporter',
                   '**fing': 'FingSpineImporter'}


@contract('kernpy.core.importer_factory.createImporter', props=['C18'])
class create_importer:
    """Header -> importer class; every unknown header gets the basic importer."""
    def inputs(g):
        return {'spine_type': g.str_sym('header', list(HEADER_TO_CLASS) + ['**silbe', '**foo', 'kern', ''])}

    def requires(spine_type):
        # **mens is outside C18 (its importer is not implemented: the constructor raises NotImplementedError)
        return spine_type != '**mens'

    def post_class(result, spine_type):
        for h in HEADER_TO_CLASS:
            if spine_type == h:
                return type(result).__name__ == HEADER_TO_CLASS[h]
        return type(result).__name__ == 'BasicSpineImporter'


# ------------------------------------------------------------------------------------------------ history (the importer object is reused)
# The Importer keeps one spine importer per header text and feeds it every cell of its spines: the outcome of a cell must not depend
# on the cells seen before.  Two consecutive calls on one object, any two cells (equal ones included): the second outcome is the
# dispatch of the second cell alone.  With the one-call contracts above (which start from a freshly constructed object) this covers
# state carried from one call into the next; longer histories are covered by the bounded document-level contracts.
def second_call_as_fresh(imp, first, second, own):
    try:
        imp.import_token(first)
    except Exception:
        pass
    r = imp.import_token(second)
    return implies(k_not_own_family(second), dispatch_ok(r, second, own))


def two_cells(g, cls):
    first = g.str_sym('first', CELL_CORPUS)
    # (the corpus only guides the native witness search: half of the sampled pairs are equal cells)
    return {'imp': mk_spine_importer(g, cls), 'first': first, 'second': g.str_sym('second', [first] * len(CELL_CORPUS) + CELL_CORPUS)}


@contract(None, props=['C18'])
class history_text:
    assumes = (A_KERN,)

    inline = ('kernpy.core.text_spine_importer.TextSpineImporter.import_token',)

    def inputs(g):
        return two_cells(g, TextSpineImporter)

    def requires(first, second):
        return conj(len(first) > 0, len(second) > 0)

    def post_second_call_as_fresh(imp, first, second):
        return second_call_as_fresh(imp, first, second, OWN['TextSpineImporter'])


@contract(None, props=['C18'])
class history_dynam:
    assumes = (A_KERN,)

    inline = ('kernpy.core.dynam_spine_importer.DynamSpineImporter.import_token',)

    def inputs(g):
        return two_cells(g, DynamSpineImporter)

    def requires(first, second):
        return conj(len(first) > 0, len(second) > 0)

    def post_second_call_as_fresh(imp, first, second):
        return second_call_as_fresh(imp, first, second, OWN['DynamSpineImporter'])


@contract(None, props=['C18'])
class history_dyn:
    assumes = (A_KERN,)

    inline = ('kernpy.core.dyn_importer.DynSpineImporter.import_token',)

    def inputs(g):
        return two_cells(g, DynSpineImporter)

    def requires(first, second):
        return conj(len(first) > 0, len(second) > 0)

    def post_second_call_as_fresh(imp, first, second):
        return second_call_as_fresh(imp, first, second, OWN['DynSpineImporter'])


@contract(None, props=['C18'])
class history_harm:
    assumes = (A_KERN,)

    inline = ('kernpy.core.harm_spine_importer.HarmSpineImporter.import_token',)

    def inputs(g):
        return two_cells(g, HarmSpineImporter)

    def requires(first, second):
        return conj(len(first) > 0, len(second) > 0)

    def post_second_call_as_fresh(imp, first, second):
        return second_call_as_fresh(imp, first, second, OWN['HarmSpineImporter'])


@contract(None, props=['C18'])
class history_mxhm:
    assumes = (A_KERN,)

    inline = ('kernpy.core.mhxm_spine_importer.MxhmSpineImporter.import_token',)

    def inputs(g):
        return two_cells(g, MxhmSpineImporter)

    def requires(first, second):
        return conj(len(first) > 0, len(second) > 0)

    def post_second_call_as_fresh(imp, first, second):
        return second_call_as_fresh(imp, first, second, OWN['MxhmSpineImporter'])


@contract(None, props=['C18'])
class history_fing:
    assumes = (A_KERN,)

    inline = ('kernpy.core.fing_spine_importer.FingSpineImporter.import_token',)

    def inputs(g):
        return two_cells(g, FingSpineImporter)

    def requires(first, second):
        return conj(len(first) > 0, len(second) > 0)

    def post_second_call_as_fresh(imp, first, second):
        return second_call_as_fresh(imp, first, second, OWN['FingSpineImporter'])


@contract(None, props=['C18'])
class history_basic:
    assumes = (A_KERN,)

    inline = ('kernpy.core.basic_spine_importer.BasicSpineImporter.import_token',)

    def inputs(g):
        return two_cells(g, BasicSpineImporter)

    def requires(first, second):
        return conj(len(first) > 0, len(second) > 0)

    def post_second_call_as_fresh(imp, first, second):
        return second_call_as_fresh(imp, first, second, OWN['BasicSpineImporter'])

