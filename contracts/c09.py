"""C09 -- transposition is exact interval arithmetic (DESIGN 4.9)."""
from pyvc.contract import contract
from pyvc.ghost import ite, conj, disj, implies, forall
from contracts.spec_pitch import (LETTERS_UP, B40, SEMI, name_LA, b40_of, decode40, interval_names, interval_model,
                                  letter_of, alt_of, canonical_name, transposed_LAO, signed, spell)
from contracts.shapes import mk_pitch
from kernpy.core.pitch_models import AgnosticPitch, Chromas, ChromasByValue
from kernpy.core.transposer import Intervals, IntervalsByName, AVAILABLE_INTERVALS


# ------------------------------------------------------------------------------------------------ data invariants
@contract(None, props=['C09', 'C15'], const='kernpy.core.pitch_models.Chromas')
class chromas_table:
    def inputs(g):
        return {}

    def post_covers_two_accidentals(result):
        # every letter with up to two sharps or flats has the base-40 value B40[L] + a
        return all(result.get(name_LA(L, a)) == B40[L] + a for L in range(7) for a in (-2, -1, 0, 1, 2))

    def post_every_entry_is_base40(result):
        # every key is letter + accidentals of one kind, its value is B40[L] + a, inside one octave
        return all(len(k) >= 1 and k[0] in LETTERS_UP
                   and (k[1:] == '+' * (len(k) - 1) or k[1:] == '-' * (len(k) - 1))
                   and v == B40[LETTERS_UP.index(k[0])] + k.count('+') - k.count('-')
                   and 0 <= v <= 39
                   for k, v in result.items())

    def post_injective(result):
        return len(set(result.values())) == len(result)


@contract(None, props=['C09', 'C15'], const='kernpy.core.pitch_models.ChromasByValue')
class chromas_by_value_table:
    def inputs(g):
        return {}

    def post_inverse_on_two_accidentals(result):
        return all(result.get(B40[L] + a) == name_LA(L, a) for L in range(7) for a in (-2, -1, 0, 1, 2))

    def post_hole(result):
        return 22 not in result

    def post_only_base40_names(result):
        return all(0 <= v <= 39 and k[0] in LETTERS_UP and v == B40[LETTERS_UP.index(k[0])] + k.count('+') - k.count('-')
                   for v, k in result.items())


@contract(None, props=['C09', 'C15'], const='kernpy.core.transposer.Intervals')
class intervals_table:
    def inputs(g):
        return {}

    def post_names_have_model_size(result):
        # the base-40 size of every named interval of the letter/semitone model is the key under which it is stored
        return all(result.get(interval_model(n)[2]) == n for n in interval_names())

    def post_nothing_else(result):
        return len(result) == len(interval_names())


@contract(None, props=['C09', 'C15'], const='kernpy.core.transposer.IntervalsByName')
class intervals_by_name_table:
    def inputs(g):
        return {}

    def post_inverse(result):
        return all(result.get(n) == interval_model(n)[2] for n in interval_names()) and len(result) == len(interval_names())


@contract(None, props=['C09', 'C15'], const='kernpy.core.transposer.AVAILABLE_INTERVALS')
class available_intervals:
    def inputs(g):
        return {}

    def post_sorted_names(result):
        return result == sorted(interval_names())


# ------------------------------------------------------------------------------------------------ functions
def pitch_inputs(g, amax=2):
    L = g.choice('L', range(7))
    a = g.int('a', -amax, amax)
    o = g.int('o')
    return L, a, o


@contract('kernpy.core.pitch_models.AgnosticPitch.__init__', props=['C09', 'C16', 'C15'])
class pitch_init:
    """AgnosticPitch(name, octave) for a canonical agnostic name: the object carries exactly that name and octave."""
    def inputs(g):
        L, a, o = pitch_inputs(g, 3)
        return {'self': g.new(AgnosticPitch, {}, None), 'name': name_LA(L, a), 'octave': o, '_L': L, '_a': a}

    modifies = ('self',)

    def post_fields(self, name, octave):
        return conj(self.name == name, self.octave == octave)


@contract('kernpy.core.pitch_models.AgnosticPitch.get_chroma', props=['C09', 'C15'])
class get_chroma:
    """chroma = 40 * octave + B40[letter] + alteration, for every octave; never raises on a name with <= 2 accidentals."""
    def inputs(g):
        L, a, o = pitch_inputs(g)
        return {'self': mk_pitch(g, name_LA(L, a), o)}

    def requires(self):
        return canonical_name(self.name, 2)

    def post_value(self, result):
        return result == b40_of(letter_of(self), alt_of(self), self.octave)

    def model(self):
        return b40_of(letter_of(self), alt_of(self), self.octave)


def exact_target(L, a, o, dia, semi, sign):
    """The letter/semitone model: move the letter by `dia` diatonic steps and the sounding pitch by `semi` semitones."""
    D = 7 * o + L + sign * dia
    Lx = D % 7
    ox = D // 7
    ax = (12 * o + SEMI[L] + a + sign * semi) - (12 * ox + SEMI[Lx])
    return (Lx, ax, ox)


@contract('kernpy.core.pitch_models.AgnosticPitch.to_transposed', props=['C09', 'C15'])
class to_transposed:
    """result is the pitch whose base-40 value is the source value plus/minus the interval, for every octave, every
    integer interval and both directions; KeyError exactly when the sum falls on the unused class 22.
    For the three-flat classes 5, 11, 28, 34 (outside the property's claim) only the class and octave are pinned."""
    def inputs(g):
        L, a, o = pitch_inputs(g)
        return {'cls': AgnosticPitch, 'agnostic_pitch': mk_pitch(g, name_LA(L, a), o), 'raw_interval': g.int('interval'),
                'direction': g.choice('direction', ['up', 'down'])}

    def requires(agnostic_pitch):
        return canonical_name(agnostic_pitch.name, 2)

    modifies = ()

    def post_octave(result, agnostic_pitch, raw_interval, direction):
        p = agnostic_pitch
        c = b40_of(letter_of(p), alt_of(p), p.octave) + signed(raw_interval, direction)
        return result.octave == c // 40

    def post_name(result, agnostic_pitch, raw_interval, direction):
        p = agnostic_pitch
        c = b40_of(letter_of(p), alt_of(p), p.octave) + signed(raw_interval, direction)
        return conj(canonical_name(result.name, 3),
                    B40[letter_of(result)] + alt_of(result) == c % 40,
                    disj(conj(-2 <= alt_of(result), alt_of(result) <= 2), c % 40 == 5, c % 40 == 11, c % 40 == 28, c % 40 == 34))

    def raises(agnostic_pitch, raw_interval, direction):
        p = agnostic_pitch
        c = b40_of(letter_of(p), alt_of(p), p.octave) + signed(raw_interval, direction)
        return {'KeyError': c % 40 == 22}


@contract('kernpy.core.transposer.transpose_agnostics', props=['C09', 'C15'])
class transpose_agnostics:
    def inputs(g):
        L, a, o = pitch_inputs(g)
        return {'input_pitch': mk_pitch(g, name_LA(L, a), o), 'interval': g.int('interval'),
                'direction': g.choice('direction', ['up', 'down'])}

    def requires(input_pitch):
        return canonical_name(input_pitch.name, 2)

    modifies = ()

    def post_octave(result, input_pitch, interval, direction):
        p = input_pitch
        c = b40_of(letter_of(p), alt_of(p), p.octave) + signed(interval, direction)
        return result.octave == c // 40

    def post_name(result, input_pitch, interval, direction):
        p = input_pitch
        c = b40_of(letter_of(p), alt_of(p), p.octave) + signed(interval, direction)
        return conj(canonical_name(result.name, 3),
                    B40[letter_of(result)] + alt_of(result) == c % 40,
                    disj(conj(-2 <= alt_of(result), alt_of(result) <= 2), c % 40 == 5, c % 40 == 11, c % 40 == 28, c % 40 == 34))

    def raises(input_pitch, interval, direction):
        p = input_pitch
        c = b40_of(letter_of(p), alt_of(p), p.octave) + signed(interval, direction)
        return {'KeyError': c % 40 == 22}


@contract('kernpy.core.transposer.transpose', props=['C09', 'C15'])
class transpose:
    """The string API (Humdrum in, Humdrum out): transpose(Spell(p), i, d) == Spell(p moved by i base-40 units)."""
    def inputs(g):
        L, a, o = pitch_inputs(g)
        return {'input_encoding': spell(L, a, o), 'interval': g.int('interval'), 'input_format': 'kern', 'output_format': 'kern',
                'direction': g.choice('direction', ['up', 'down']), '_L': L, '_a': a, '_o': o}

    def post_spelling(result, L, a, o, interval, direction):
        c = b40_of(L, a, o) + signed(interval, direction)
        pc = c % 40
        if disj(pc == 5, pc == 11, pc == 28, pc == 34):
            return True     # three flats: outside the claim
        L2, a2, o2 = transposed_LAO(L, a, o, signed(interval, direction))
        return result == spell_sym(L2, a2, o2)

    def raises(L, a, o, interval, direction):
        c = b40_of(L, a, o) + signed(interval, direction)
        return {'KeyError': c % 40 == 22}


def spell_sym(L, a, o):
    """spell() for a symbolic letter index: case split on the letter (7 ways, pruned by the path condition)."""
    for k in range(7):
        if L == k:
            return spell(k, a, o)
    return None


# ------------------------------------------------------------------------------------------------ lemmas
@contract(None, props=['C09'])
class lemma_exact:
    """Exactness against the letter/semitone model: for every named interval of the model (base-40 size b, diatonic size
    dia, semitone size semi), every pitch with |a| <= 2 in any octave and both directions: if the exact result is
    spellable with at most two accidentals then the base-40 result does not fall on class 22 and IS that pitch.
    Pure linear integer arithmetic over the spec tables (B40, SEMI) -- no bound on the octave."""
    def inputs(g):
        return {'L': g.int('L', 0, 6), 'a': g.int('a', -2, 2), 'o': g.int('o'),
                'n': g.choice('interval', interval_names()), 'sign': g.choice('sign', [1, -1])}

    def post_exact(L, a, o, n, sign):
        dia, semi, b = interval_model(n)
        Lx, ax, ox = exact_target(L, a, o, dia, semi, sign)
        c = b40_of(L, a, o) + sign * b
        L2, a2, o2 = transposed_LAO(L, a, o, sign * b)
        return implies(conj(-2 <= ax, ax <= 2),
                       conj(c % 40 != 22, L2 == Lx, a2 == ax, o2 == ox))


@contract(None, props=['C09'])
class lemma_inverse_real:
    """down(up(p, i), i) == p and up(down(p, i), i) == p on the real code, whenever the first call does not raise;
    every pitch with |a| <= 2, every octave, every integer interval (so all 40 named ones)."""
    def inputs(g):
        L, a, o = pitch_inputs(g)
        return {'p': mk_pitch(g, name_LA(L, a), o), 'i': g.int('interval'),
                'd1': g.choice('first', ['up', 'down']), '_L': L, '_a': a, '_o': o}

    def post_round_trip(p, i, d1, L, a, o):
        d2 = 'down' if d1 == 'up' else 'up'
        try:
            q = AgnosticPitch.to_transposed(p, i, d1)
        except KeyError:
            return True
        r = AgnosticPitch.to_transposed(q, i, d2)
        return conj(r.name == name_LA(L, a), r.octave == o)


@contract(None, props=['C09'])
class lemma_unison_octave_real:
    """unison is the identity; an octave keeps the name and moves the octave by one (real code, real tables)."""
    def inputs(g):
        L, a, o = pitch_inputs(g)
        return {'p': mk_pitch(g, name_LA(L, a), o), 'd': g.choice('direction', ['up', 'down']), '_L': L, '_a': a, '_o': o}

    def post_unison(p, d, L, a, o):
        r = AgnosticPitch.to_transposed(p, IntervalsByName['P1'], d)
        return conj(r.name == name_LA(L, a), r.octave == o)

    def post_octave(p, d, L, a, o):
        r = AgnosticPitch.to_transposed(p, IntervalsByName['octave'], d)
        return conj(r.name == name_LA(L, a), r.octave == o + ite(d == 'up', 1, -1))


@contract(None, props=['C09'])
class lemma_fourth_fifth_real:
    """a fourth followed by a fifth (either order, either direction) equals an octave, on the real code."""
    def inputs(g):
        L, a, o = pitch_inputs(g)
        return {'p': mk_pitch(g, name_LA(L, a), o), 'd': g.choice('direction', ['up', 'down']),
                'order': g.choice('order', [('P4', 'P5'), ('P5', 'P4')]), '_L': L, '_a': a, '_o': o}

    def post_octave(p, d, order, L, a, o):
        try:
            q = AgnosticPitch.to_transposed(p, IntervalsByName[order[0]], d)
        except KeyError:
            return True
        r = AgnosticPitch.to_transposed(q, IntervalsByName[order[1]], d)
        return conj(r.name == name_LA(L, a), r.octave == o + ite(d == 'up', 1, -1))
