"""Sidecar contracts for kernpy (the repository is not edited).  Importing this package registers every contract."""
