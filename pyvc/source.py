"""Mechanical extraction of kernpy's source: every run re-parses the current working tree of the repository.

Nothing is copied by hand: functions, classes, enum members and module constants are read from the ast of
REPO/kernpy/**.py (generated ANTLR code and legacy parsers excluded).
"""
from __future__ import annotations

import ast
import hashlib
import os
from typing import Dict, List, Optional

REPO = os.environ.get('KERNPY_REPO', '/repo')

EXCLUDE_DIRS = ('generated', 'polish_scores')
EXCLUDE_FILES = ('import_humdrum_old.py',)


class FuncInfo:
    def __init__(self, node, module: 'ModuleInfo', cls: Optional['ClassInfo'], qualname: str):
        self.node = node
        self.module = module
        self.cls = cls
        self.qualname = qualname
        self.name = node.name
        self.kind = 'function'  # function | classmethod | staticmethod | property | setter | abstract
        self.deprecated = False
        for d in node.decorator_list:
            dn = ast.unparse(d)
            if dn == 'classmethod':
                self.kind = 'classmethod'
            elif dn == 'staticmethod':
                self.kind = 'staticmethod'
            elif dn == 'property':
                self.kind = 'property'
            elif dn.endswith('.setter'):
                self.kind = 'setter'
            elif dn == 'abstractmethod':
                self.abstract = True
            elif dn.startswith('deprecated('):
                self.deprecated = True  # wrapper body is `return func(*args, **kwargs)` (checked in selftest)
        self.abstract = getattr(self, 'abstract', False)

    def source_hash(self) -> str:
        return hashlib.sha256(ast.dump(self.node).encode()).hexdigest()[:16]

    def __repr__(self):
        return f'<func {self.qualname}>'


class ClassInfo:
    def __init__(self, node, module: 'ModuleInfo', qualname: str):
        self.node = node
        self.module = module
        self.qualname = qualname
        self.name = node.name
        self.base_names = [ast.unparse(b) for b in node.bases]
        self.methods: Dict[str, FuncInfo] = {}
        self.setters: Dict[str, FuncInfo] = {}
        self.class_assigns: Dict[str, ast.expr] = {}
        self.class_assign_order: List[str] = []
        self.nested: Dict[str, 'ClassInfo'] = {}
        for st in node.body:
            if isinstance(st, (ast.FunctionDef,)):
                fi = FuncInfo(st, module, self, f'{qualname}.{st.name}')
                if fi.kind == 'setter':
                    self.setters[st.name] = fi
                else:
                    self.methods[st.name] = fi
            elif isinstance(st, ast.Assign) and len(st.targets) == 1 and isinstance(st.targets[0], ast.Name):
                self.class_assigns[st.targets[0].id] = st.value
                self.class_assign_order.append(st.targets[0].id)
            elif isinstance(st, ast.AnnAssign) and isinstance(st.target, ast.Name) and st.value is not None:
                self.class_assigns[st.target.id] = st.value
                self.class_assign_order.append(st.target.id)
            elif isinstance(st, ast.ClassDef):
                self.nested[st.name] = ClassInfo(st, module, f'{qualname}.{st.name}')
        self.is_enum = 'Enum' in self.base_names
        self._mro = None

    def bases(self) -> List['ClassInfo']:
        out = []
        for b in self.base_names:
            r = self.module.resolve_static(b)
            if isinstance(r, ClassInfo):
                out.append(r)
        return out

    def mro(self) -> List['ClassInfo']:
        if self._mro is None:
            # C3 is not needed for kernpy's single-inheritance chains (plus ABC); depth-first, left-to-right, de-duplicated
            seen, order = set(), []

            def walk(c):
                if c.qualname in seen:
                    return
                seen.add(c.qualname)
                order.append(c)
                for b in c.bases():
                    walk(b)
            walk(self)
            self._mro = order
        return self._mro

    def find_method(self, name: str, after: Optional['ClassInfo'] = None) -> Optional[FuncInfo]:
        mro = self.mro()
        if after is not None:
            idx = [c.qualname for c in mro].index(after.qualname)
            mro = mro[idx + 1:]
        for c in mro:
            if name in c.methods:
                return c.methods[name]
        return None

    def find_setter(self, name: str) -> Optional[FuncInfo]:
        for c in self.mro():
            if name in c.setters:
                return c.setters[name]
        return None

    def find_class_assign(self, name: str):
        for c in self.mro():
            if name in c.class_assigns:
                return c, c.class_assigns[name]
        return None, None

    def is_subclass_of(self, other: 'ClassInfo') -> bool:
        return any(c.qualname == other.qualname for c in self.mro())

    def base_name_closure(self) -> List[str]:
        """All base names including external ones (Exception, ABC, Enum...)."""
        out = []
        for c in self.mro():
            out.append(c.name)
            for b in c.base_names:
                if b not in out:
                    out.append(b)
        return out

    def __repr__(self):
        return f'<class {self.qualname}>'


class ModuleInfo:
    def __init__(self, name: str, path: str, index: 'SourceIndex'):
        self.name = name
        self.path = path
        self.index = index
        with open(path, 'r', encoding='utf-8') as f:
            self.text = f.read()
        self.tree = ast.parse(self.text, filename=path)
        self.functions: Dict[str, FuncInfo] = {}
        self.classes: Dict[str, ClassInfo] = {}
        self.assigns: Dict[str, ast.expr] = {}
        self.imports: Dict[str, tuple] = {}   # local name -> (module name, original name)
        self.star_imports: List[str] = []
        self.is_package = os.path.basename(path) == '__init__.py'
        for st in self.tree.body:
            if isinstance(st, ast.FunctionDef):
                self.functions[st.name] = FuncInfo(st, self, None, f'{name}.{st.name}')
            elif isinstance(st, ast.ClassDef):
                self.classes[st.name] = ClassInfo(st, self, f'{name}.{st.name}')
            elif isinstance(st, ast.Assign) and len(st.targets) == 1 and isinstance(st.targets[0], ast.Name):
                self.assigns[st.targets[0].id] = st.value
            elif isinstance(st, ast.AnnAssign) and isinstance(st.target, ast.Name) and st.value is not None:
                self.assigns[st.target.id] = st.value
            elif isinstance(st, ast.ImportFrom):
                mod = self._abs_module(st.module, st.level)
                for a in st.names:
                    if a.name == '*':
                        self.star_imports.append(mod)
                    else:
                        self.imports[a.asname or a.name] = (mod, a.name)
            elif isinstance(st, ast.Import):
                for a in st.names:
                    self.imports[a.asname or a.name.split('.')[0]] = (a.name, None)

    def _abs_module(self, module: Optional[str], level: int) -> str:
        if level == 0:
            return module or ''
        parts = self.name.split('.')
        if not self.is_package:
            parts = parts[:-1]
        if level > 1:
            parts = parts[:-(level - 1)]
        if module:
            parts = parts + module.split('.')
        return '.'.join(parts)

    def resolve_static(self, name: str, _seen=None):
        """Resolve a (possibly dotted) global name to FuncInfo / ClassInfo / ('const', module, expr) / ('ext', name) / None."""
        _seen = _seen or set()
        key = (self.name, name)
        if key in _seen:
            return None
        _seen.add(key)
        if '.' in name:
            head, rest = name.split('.', 1)
            r = self.resolve_static(head, _seen)
            if isinstance(r, ClassInfo):
                if rest in r.nested:
                    return r.nested[rest]
                return None
            if isinstance(r, ModuleInfo):
                return r.resolve_static(rest, _seen)
            return None
        if name in self.classes:
            return self.classes[name]
        if name in self.functions:
            return self.functions[name]
        if name in self.assigns:
            return ('const', self, self.assigns[name])
        if name in self.imports:
            mod, orig = self.imports[name]
            m = self.index.modules.get(mod)
            if m is None:
                return ('ext', f'{mod}.{orig}' if orig else mod)
            if orig is None:
                return m
            r = m.resolve_static(orig, _seen)
            if r is None and (mod + '.' + orig) in self.index.modules:
                return self.index.modules[mod + '.' + orig]
            return r
        for mod in self.star_imports:
            m = self.index.modules.get(mod)
            if m is not None:
                r = m.resolve_static(name, _seen)
                if r is not None:
                    return r
        return None


class SourceIndex:
    def __init__(self, repo: str = None, extra_roots=()):
        """extra_roots: [(directory, package name)] -- the contract package is indexed the same way so that spec code
        is executed by the same front end."""
        self.repo = repo or REPO
        self.modules: Dict[str, ModuleInfo] = {}
        self._load_tree(os.path.join(self.repo, 'kernpy'), self.repo)
        for d, pkg in extra_roots:
            self._load_tree(d, os.path.dirname(os.path.abspath(d)))

    def _load_tree(self, root, base):
        for dirpath, dirnames, filenames in os.walk(root):
            dirnames[:] = [d for d in dirnames if d not in EXCLUDE_DIRS and not d.startswith('__')]
            for fn in filenames:
                if not fn.endswith('.py') or fn in EXCLUDE_FILES:
                    continue
                path = os.path.join(dirpath, fn)
                rel = os.path.relpath(path, base)[:-3].replace(os.sep, '.')
                if rel.endswith('.__init__'):
                    rel = rel[:-len('.__init__')]
                try:
                    self.modules[rel] = ModuleInfo(rel, path, self)
                except SyntaxError as e:  # a tree that does not compile is not our business; report
                    raise RuntimeError(f'cannot parse {path}: {e}')

    def function(self, qualname: str) -> FuncInfo:
        """'kernpy.core.pitch_models.AgnosticPitch.get_chroma' or 'kernpy.core.transposer.transpose'.
        A property setter is addressed as '<class>.<name>.setter'."""
        parts = qualname.split('.')
        for i in range(len(parts) - 1, 0, -1):
            mod = '.'.join(parts[:i])
            if mod in self.modules:
                m = self.modules[mod]
                rest = parts[i:]
                if len(rest) == 1:
                    if rest[0] in m.functions:
                        return m.functions[rest[0]]
                elif rest[0] in m.classes:
                    c = m.classes[rest[0]]
                    k = 1
                    while k < len(rest) - 1 and rest[k] in c.nested:
                        c = c.nested[rest[k]]
                        k += 1
                    tail = rest[k:]
                    # the method that runs for this class: its own definition or the first one along the base classes (a method
                    # hoisted into a base class is still the code under contract)
                    for k_ in c.mro():
                        if len(tail) == 1 and tail[0] in k_.methods:
                            return k_.methods[tail[0]]
                        if len(tail) == 2 and tail[1] == 'setter' and tail[0] in k_.setters:
                            return k_.setters[tail[0]]
                raise KeyError(f'function {qualname} not found in module {mod}')
        raise KeyError(f'function {qualname}: no module')

    def cls(self, qualname: str) -> ClassInfo:
        mod, name = qualname.rsplit('.', 1)
        return self.modules[mod].classes[name]

    def const_expr(self, qualname: str):
        mod, name = qualname.rsplit('.', 1)
        if mod in self.modules and name in self.modules[mod].assigns:
            return self.modules[mod], self.modules[mod].assigns[name]
        # class attribute
        mod2, cname = mod.rsplit('.', 1)
        c = self.modules[mod2].classes[cname]
        return self.modules[mod2], c.class_assigns[name]


def continuation_after(func_node, stmt):
    """The statements that run after `stmt` (a statement of `func_node`, possibly nested in `if` blocks) up to the end of the function,
    in order: the rest of its own block, then the rest of every enclosing block.  None when `stmt` is not found or sits inside a loop,
    a try or a with block (control does not simply fall through there)."""
    import ast

    def search(block):
        for i, st in enumerate(block):
            if st is stmt:
                return list(block[i + 1:])
            if isinstance(st, ast.If):
                for sub in (st.body, st.orelse):
                    r = search(sub)
                    if r is not None:
                        return r + list(block[i + 1:])
        return None
    return search(func_node.body)
