"""Contracts: sidecar specifications keyed by the qualified name of the real function.

A contract is a class decorated with @contract(<qualified name>, ...).  Its members are ordinary Python in the verified
subset; pyvc executes them symbolically for proofs and natively for replay / bounded search:

    inputs(g)                 builds the (symbolic or concrete) arguments from the factory g; returns {param: value}
                              (keys starting with '_' are ghost values visible to the clauses by name)
    requires(**params)        precondition (optional)
    post_<name>(..., result)  named postconditions (normal exit)
    raises(**params)          {exception name: condition}; the call raises E iff its condition holds; any other
                              exception is a 'safe:' obligation
    modifies                  tuple of paths ('row', 'self.tokens') that may be written; everything else that existed
                              before the call is framed
    model(**params)           abstract implementation used at call sites (may mutate what `modifies` allows)
"""
from __future__ import annotations

import inspect
import random
from typing import Dict, List, Optional

import z3

from .values import Unsupported, SObj, SEnum, SSet, SStr, EnumVal, NativeFn
from .source import ClassInfo, FuncInfo

REGISTRY: Dict[str, 'ContractInfo'] = {}


class ContractInfo:
    def __init__(self, pycls, target, props, name, use_at_calls, bounded, const=None, assumed=None, local=False):
        self.pycls, self.target, self.props, self.name = pycls, target, tuple(props), name or pycls.__name__
        self.const = const          # data invariant on a module constant (target is None)
        self.assumed = assumed      # text of the assumption: the contract is used at call sites but NOT verified (trusted)
        self.local = local          # a summary that replaces calls only inside contracts that list it in `uses`
        self.kind = 'function' if target else ('const' if const else 'lemma')
        self.use_at_calls = use_at_calls if not (getattr(pycls, 'step', None) or getattr(pycls, 'tail', None)) else False     # a loop-step contract is never a callee summary
        self.bounded = bounded
        self.module_name = pycls.__module__
        self.clauses = [n for n in vars(pycls) if n.startswith('post_')]

    def has(self, name):
        return name in vars(self.pycls)


def contract(target: str, props=(), name=None, use_at_calls=None, bounded=None, const=None, assumed=None, local=False):
    def deco(pycls):
        ci = ContractInfo(pycls, target, props, name, use_at_calls, bounded, const, assumed, local)
        key = ci.name
        if key in REGISTRY:
            raise RuntimeError(f'duplicate contract name {key}')
        REGISTRY[key] = ci
        pycls._contract = ci
        return pycls
    return deco


# --------------------------------------------------------------------------------------------------- factories
class SymFactory:
    """Symbolic argument factory: every call creates named z3 constants and records them as inputs (for witnesses)."""
    _pyvc_native = True
    symbolic = True

    def __init__(self, I):
        self.I = I

    def _reg(self, name, var):
        if name in self.I.input_vars:
            raise RuntimeError(f'duplicate input name {name}')
        self.I.input_vars[name] = var
        return var

    def int(self, name, lo=None, hi=None):
        v = self._reg(name, z3.Int(name))
        if lo is not None:
            self.I.assume(v >= lo)
        if hi is not None:
            self.I.assume(v <= hi)
        return v

    def bool(self, name):
        return self._reg(name, z3.Bool(name))

    def choice(self, name, options):
        options = list(options)
        v = self._reg(name, z3.Int(name))
        self.I.assume(z3.And(v >= 0, v < len(options)))
        k = self.I.fork([v == i for i in range(len(options))])
        return options[k]

    def enum(self, name, cls):
        ms = self.I.enum_members(cls)
        v = self._reg(name, z3.Int(name))
        self.I.assume(z3.And(v >= 0, v < len(ms)))
        return SEnum(cls, v)

    def enum_set(self, name, cls, kind='set', may_be_bad=False):
        bits = {}
        for m in self.I.enum_members(cls):
            bits[m] = self._reg(f'{name}.{m.name}', z3.Bool(f'{name}.{m.name}'))
        bad = self._reg(f'{name}.!bad', z3.Bool(f'{name}.!bad')) if may_be_bad else False
        return SSet(cls, bits, kind, bad)

    def str_sym(self, name, corpus=None):
        v = self._reg(name, z3.String(name))
        return SStr([('sym', v)])

    def str_for(self, name, key, corpus_by_key):
        return self.str_sym(name)

    def int_set(self, name):
        """an arbitrary collection of ints, known through membership only"""
        from .values import SPredSet
        from .interp import zint
        F = z3.Function(name, z3.IntSort(), z3.BoolSort())
        return SPredSet(lambda x: F(zint(x)), name)

    def str_subset(self, name, universe):
        """an arbitrary sub-collection of a finite universe of strings"""
        from .values import GList
        return GList([(self._reg(f'{name}.{u}', z3.Bool(f'{name}.{u}')), u) for u in universe])

    def new(self, cls, fields, ctor=None):
        if not isinstance(cls, ClassInfo):
            raise Unsupported('g.new needs a repository class')
        o = SObj(cls, False)
        if ctor == () and not fields:
            # the object a caller gets from `Cls()`: whatever the (current) constructor sets up is part of the input's invariant
            init = cls.find_method('__init__')
            if init is not None:
                self.I.call_function(init, [o], {})
        for k, v in fields.items():
            o.fields[k] = v
        return o

    def new_any(self, name, classes, fields):
        """an object whose class is one of `classes` (unknown which); only the common fields are given.  Supported uses: isinstance,
        field reads -- a method call on it leaves the subset (the class decides the method)"""
        v = self._reg(name + '.class', z3.Int(name + '.class'))
        self.I.assume(z3.And(v >= 0, v < len(classes)))
        o = SObj(classes[0], False)
        o.cls_alt = [(c, v == i) for i, c in enumerate(classes)]
        for k, x in fields.items():
            o.fields[k] = x
        return o

    def assume(self, cond):
        self.I.assume(self.I.truth(cond))
        return None

    def seeded_rng(self, name):
        raise Unsupported('native-only input builder (generated documents): this contract is a bounded stand-in')

    def ext(self, tag, native_builder=None):
        """an external value (path, file, document) the proof does not look into; natively built by native_builder()"""
        from .interp import Opaque
        return Opaque(tag)

    def enum_in(self, name, cls, allowed):
        v = self._reg(name, z3.Int(name))
        ms = self.I.enum_members(cls)
        self.I.assume(z3.Or(*[v == m.index for m in allowed]))
        return SEnum(cls, v)

    def cat_pred(self, name, cls):
        """an arbitrary predicate on a finite enum == membership in an arbitrary subset"""
        S = self.enum_set(name, cls)
        I = self.I
        fn = NativeFn(lambda c: I.contains(S, c), name)
        fn.members = S
        return fn

    def str_fn(self, name):
        """an arbitrary function str -> str (uninterpreted)"""
        from .values import to_z3_string
        F = z3.Function(name, z3.StringSort(), z3.StringSort())
        return NativeFn(lambda x: SStr([('sym', F(to_z3_string(x)))]), name)

    def mlist(self, name, builder, inv=None, pair_inv=None):
        """a mutable list object of unknown length (see XList)"""
        from .values import XList
        return XList(self.seq(name, builder, inv, pair_inv), [], True)

    def seq(self, name, builder, inv=None, pair_inv=None, max_len=None):
        """a list of unknown length whose elements are built by builder(element factory)"""
        from .seq import SeqSource, SSeq
        I = self.I
        outer = self

        def elem_builder(suffix, index=None):
            ef = SymElemFactory(I, f'{name}[{suffix}].' if index is None else f'{name}.', index)
            e = I.call(builder, [ef], {})
            ef.value = e
            elem_builder.factories[suffix] = ef
            return e
        elem_builder.factories = {}

        def full_inv(e):
            from .interp import _and
            acc = True
            for suffix, ef in elem_builder.factories.items():
                if ef.value is e:
                    for c in ef.constraints:
                        acc = _and(acc, c)
            if inv is not None:
                acc = _and(acc, I.truth(I.call(inv, [e], {})))
            return acc
        src = SeqSource(name, elem_builder, full_inv, (lambda a, b: I.call(pair_inv, [a, b], {})) if pair_inv is not None else None)
        self._reg(f'{name}.len', src.length)
        I.assume(src.length >= 0)
        if max_len is not None:
            I.assume(src.length <= max_len)
        return SSeq(src)


class SymElemFactory:
    """factory for the canonical elements of a symbolic sequence: constraints become the element invariant"""
    _pyvc_native = True
    symbolic = True

    def __init__(self, I, prefix, index=None):
        self.I, self.prefix = I, prefix
        self.index = index          # element at a symbolic index: every field is a function of the index
        self.constraints = []
        self.value = None

    def _reg(self, name, var):
        if self.index is None:
            self.I.input_vars[self.prefix + name] = var
        return var

    def _var(self, name, sort):
        full = self.prefix + name
        if self.index is not None:
            return z3.Function(full, z3.IntSort(), sort)(self.index)
        return z3.Const(full, sort)

    def int(self, name, lo=None, hi=None):
        v = self._reg(name, self._var(name, z3.IntSort()))
        if lo is not None:
            self.constraints.append(v >= lo)
        if hi is not None:
            self.constraints.append(v <= hi)
        return v

    def bool(self, name):
        return self._reg(name, self._var(name, z3.BoolSort()))

    def enum(self, name, cls):
        v = self._reg(name, self._var(name, z3.IntSort()))
        self.constraints.append(z3.And(v >= 0, v < len(self.I.enum_members(cls))))
        return SEnum(cls, v)

    def enum_in(self, name, cls, allowed):
        v = self._reg(name, self._var(name, z3.IntSort()))
        self.constraints.append(z3.Or(*[v == m.index for m in allowed]))
        return SEnum(cls, v)

    def str_sym(self, name, corpus=None):
        v = self._reg(name, self._var(name, z3.StringSort()))
        return SStr([('sym', v)])

    def str_for(self, name, key, corpus_by_key):
        return self.str_sym(name)

    def new(self, cls, fields, ctor=None):
        o = SObj(cls, False)
        for k, v in fields.items():
            o.fields[k] = v
        return o

    def new_any(self, name, classes, fields):
        v = self._reg(name + '.class', self._var(name + '.class', z3.IntSort()))
        self.constraints.append(z3.And(v >= 0, v < len(classes)))
        o = SObj(classes[0], False)
        o.cls_alt = [(c, v == i) for i, c in enumerate(classes)]
        for k, x in fields.items():
            o.fields[k] = x
        return o

    def assume(self, cond):
        from .interp import zbool
        t = self.I.truth(cond)
        if t is not True:
            self.constraints.append(zbool(t))

    def mlist(self, name, builder, inv=None, pair_inv=None):
        from .values import XList
        return XList(self.seq(name, builder, inv, pair_inv), [], True)

    def seq(self, name, builder, inv=None, pair_inv=None, max_len=None):
        # a sequence inside an element (e.g. the sub-tokens of one note of a chord): its names carry the element suffix
        outer = SymFactory(self.I)
        outer._reg = lambda n, v: self._reg(n[len(self.prefix):] if n.startswith(self.prefix) else n, v)
        return SymFactory.seq(outer, self.prefix + name, builder, inv, pair_inv, max_len)


_CTOR_CONSTANTS = {}


def _ctor_constants(cls):
    """{attribute: builder of its initial value} for the `self.<attr> = <constant>` statements of the constructors along the MRO
    (constants: None, booleans, numbers, strings, empty list / dict / set); attributes assigned more than once are left out"""
    if cls in _CTOR_CONSTANTS:
        return _CTOR_CONSTANTS[cls]
    import ast, inspect, textwrap
    out = {}
    for c in reversed(cls.__mro__):
        init = c.__dict__.get('__init__')
        if init is None:
            continue
        try:
            tree = ast.parse(textwrap.dedent(inspect.getsource(init)))
        except (OSError, TypeError, SyntaxError):
            continue
        seen = {}
        for n in ast.walk(tree):
            if isinstance(n, (ast.Assign, ast.AnnAssign)) and n.value is not None:
                for t in (n.targets if isinstance(n, ast.Assign) else [n.target]):
                    if isinstance(t, ast.Attribute) and isinstance(t.value, ast.Name) and t.value.id == 'self':
                        seen.setdefault(t.attr, []).append(n.value)
        for attr, values in seen.items():
            out.pop(attr, None)
            if len(values) != 1:
                continue
            v = values[0]
            if isinstance(v, ast.Constant) and isinstance(v.value, (type(None), bool, int, str)):
                out[attr] = (lambda x: (lambda: x))(v.value)
            elif isinstance(v, ast.List) and not v.elts:
                out[attr] = list
            elif isinstance(v, ast.Dict) and not v.keys:
                out[attr] = dict
            elif isinstance(v, ast.Call) and isinstance(v.func, ast.Name) and v.func.id in ('dict', 'list', 'set') and not v.args and not v.keywords:
                out[attr] = {'dict': dict, 'list': list, 'set': set}[v.func.id]
    _CTOR_CONSTANTS[cls] = out
    return out


class ConcreteFactory:
    """Concrete factory for replay (values from a solver model) and for bounded search (values from an enumerator)."""
    symbolic = False

    def __init__(self, values: Dict[str, object] = None, rng: random.Random = None, bound: int = 3):
        self.values = dict(values or {})
        self.rng = rng
        self.bound = bound
        self.used: Dict[str, object] = {}
        self.rejected = False

    def _get(self, name, default):
        if name in self.values:
            v = self.values[name]
        else:
            v = default()
        self.used[name] = v
        return v

    def int(self, name, lo=None, hi=None):
        def d():
            a = lo if lo is not None else -self.bound
            b = hi if hi is not None else self.bound
            if self.rng is not None:
                return self.rng.randint(a, b)
            return a if lo is not None else 0
        v = self._get(name, d)
        if not isinstance(v, int) or (lo is not None and v < lo) or (hi is not None and v > hi):
            self.rejected = True
            v = lo if lo is not None else 0
        return v

    def bool(self, name):
        return bool(self._get(name, lambda: self.rng.random() < 0.5 if self.rng else False))

    def choice(self, name, options):
        options = list(options)
        i = self._get(name, lambda: self.rng.randrange(len(options)) if self.rng else 0)
        if not isinstance(i, int) or not (0 <= i < len(options)):
            self.rejected = True
            i = 0
        return options[i]

    def enum(self, name, cls):
        ms = list(cls)
        i = self._get(name, lambda: self.rng.randrange(len(ms)) if self.rng else 0)
        if not isinstance(i, int) or not (0 <= i < len(ms)):
            self.rejected = True
            i = 0
        return ms[i]

    def enum_set(self, name, cls, kind='set', may_be_bad=False):
        out = []
        for m in cls:
            if self._get(f'{name}.{m.name}', lambda: (self.rng.random() < 0.15) if self.rng else False):
                out.append(m)
        if may_be_bad and self._get(f'{name}.!bad', lambda: False):
            out.append('not-a-category')
        if kind == 'list':
            return list(out)
        if kind == 'tuple':
            return tuple(out)
        return set(out)

    def str_sym(self, name, corpus=None):
        def d():
            if corpus and self.rng is not None:
                return self.rng.choice(list(corpus))
            return corpus[0] if corpus else ''
        return str(self._get(name, d))

    def int_set(self, name):
        if self.rng is not None:
            return [k for k in range(0, 6) if self.rng.random() < 0.5]
        return [k for k in range(0, 6) if self.values.get(f'{name}.{k}')]

    def str_subset(self, name, universe):
        return [u for u in universe if self._get(f'{name}.{u}', lambda: (self.rng.random() < 0.6) if self.rng else False)]

    def str_for(self, name, key, corpus_by_key):
        """a string whose random default depends on another (already chosen) value, e.g. the text of a sub-token on its category"""
        return self.str_sym(name, corpus_by_key.get(key) or corpus_by_key.get(None))

    def new(self, cls, fields, ctor=None):
        if ctor is not None:
            obj = cls(*ctor)
        else:
            obj = cls.__new__(cls)
            # S-ctor-default (as in the symbolic run): an attribute the current constructor initialises with a constant and the
            # contract does not know yet gets that initial value
            for k, v in _ctor_constants(cls).items():
                if k not in fields:
                    object.__setattr__(obj, k, v())
        for k, v in fields.items():
            object.__setattr__(obj, k, v)
        return obj

    def new_any(self, name, classes, fields):
        i = self._get(name + '.class', lambda: self.rng.randrange(len(classes)) if self.rng else 0)
        if not isinstance(i, int) or not (0 <= i < len(classes)):
            self.rejected = True
            i = 0
        obj = classes[i].__new__(classes[i])
        for k, v in fields.items():
            object.__setattr__(obj, k, v)
        return obj

    def assume(self, cond):
        if not cond:
            self.rejected = True

    def ext(self, tag, native_builder=None):
        return native_builder() if native_builder is not None else None

    def seeded_rng(self, name):
        """a reproducible random generator for native-only builders (document generators): its seed is an input"""
        seed = self._get(name, lambda: self.rng.randrange(1 << 30) if self.rng else 0)
        return random.Random(seed)

    def enum_in(self, name, cls, allowed):
        ms = list(cls)
        allowed = list(allowed)
        i = self._get(name, lambda: ms.index(self.rng.choice(allowed)) if self.rng else ms.index(allowed[0]))
        if not isinstance(i, int) or not (0 <= i < len(ms)) or ms[i] not in allowed:
            self.rejected = True
            return allowed[0]
        return ms[i]

    def cat_pred(self, name, cls):
        S = self.enum_set(name, cls)
        fn = lambda c: c in S
        fn.members = S
        return fn

    def str_fn(self, name):
        return lambda x: '<' + x + '>'

    def mlist(self, name, builder, inv=None, pair_inv=None):
        return self.seq(name, builder, inv, pair_inv)

    def seq(self, name, builder, inv=None, pair_inv=None, max_len=None):
        """list from a model: explicit name.len + name[k].*, or the canonical elements name[j].*, name[i].* of a pointwise
        counterexample (in that order, see DESIGN 5.2), or random."""
        n = self.values.get(f'{name}.len')
        suffixes = None
        has_i = any(k.startswith(f'{name}[i].') for k in self.values)
        has_j = any(k.startswith(f'{name}[j].') for k in self.values)
        explicit = any(k.startswith(f'{name}[0].') for k in self.values)
        if explicit and isinstance(n, int):
            suffixes = [str(k) for k in range(n)]
        elif has_i or has_j:
            suffixes = (['j'] if has_j else []) + (['i'] if has_i else [])
        elif isinstance(n, int) and not isinstance(n, bool) and 0 < n <= 12 and self.rng is None:
            # the model fixes the length only (elements that carry no unknowns of their own): that many elements
            suffixes = [str(k) for k in range(n)]
        elif self.rng is not None:
            hi = 4 if max_len is None else min(4, max_len)
            suffixes = [str(k) for k in range(self.rng.randint(0, hi))]
        else:
            suffixes = []
        out = []
        for sfx in suffixes:
            ef = ConcreteElemFactory(self, f'{name}[{sfx}].')
            e = builder(ef)
            if inv is not None and not inv(e):
                self.rejected = True
            out.append(e)
        if pair_inv is not None:
            for a in range(len(out)):
                for b in range(len(out)):
                    if a != b and not pair_inv(out[a], out[b]):
                        self.rejected = True
        self.used[f'{name}.len'] = len(out)
        return out


class ConcreteElemFactory:
    symbolic = False

    def __init__(self, parent, prefix):
        self.parent, self.prefix = parent, prefix

    def new_any(self, name, classes, fields):
        return self.parent.new_any(self.prefix + name, classes, fields)

    def int(self, name, lo=None, hi=None):
        return self.parent.int(self.prefix + name, lo, hi)

    def bool(self, name):
        return self.parent.bool(self.prefix + name)

    def enum(self, name, cls):
        return self.parent.enum(self.prefix + name, cls)

    def enum_in(self, name, cls, allowed):
        return self.parent.enum_in(self.prefix + name, cls, allowed)

    def str_sym(self, name, corpus=None):
        return self.parent.str_sym(self.prefix + name, corpus)

    def str_for(self, name, key, corpus_by_key):
        return self.parent.str_for(self.prefix + name, key, corpus_by_key)

    def new(self, cls, fields, ctor=None):
        return self.parent.new(cls, fields, ctor)

    def assume(self, cond):
        self.parent.assume(cond)

    def seq(self, name, builder, inv=None, pair_inv=None, max_len=None):
        return self.parent.seq(self.prefix + name, builder, inv, pair_inv, max_len)

    def mlist(self, name, builder, inv=None, pair_inv=None):
        return self.parent.seq(self.prefix + name, builder, inv, pair_inv)


# --------------------------------------------------------------------------------------------------- registry glue
class Registry:
    """Binds the native contract classes to their ast (ClassInfo in the source index) for symbolic execution."""

    def __init__(self, index):
        self.index = index
        self.by_target: Dict[str, list] = {}
        for ci in REGISTRY.values():
            if ci.target and ci.use_at_calls is not False and (ci.has('model') or ci.has('result') or ci.assumed):
                self.by_target.setdefault(ci.target, []).append(ci)
        self.disabled = set()
        self.current_uses = ()      # names of the local summaries the contract under verification asks for

    def classinfo(self, ci: ContractInfo) -> ClassInfo:
        return self.index.modules[ci.module_name].classes[ci.pycls.__name__]

    def method(self, ci: ContractInfo, name) -> Optional[FuncInfo]:
        return self.classinfo(ci).methods.get(name)

    def for_call(self, qualname):
        cands = self.by_target.get(qualname)
        if not cands:
            return None
        for ci in cands:                      # a local summary the current contract asked for takes precedence
            if ci.local and ci.name in self.current_uses and ci.name not in self.disabled:
                return ci
        for ci in cands:
            if not ci.local and ci.name not in self.disabled:
                return ci
        return None

    def call_clause(self, I, ci: ContractInfo, name, values: dict):
        f = self.method(ci, name)
        if f is None:
            return None
        params = [p.arg for p in f.node.args.args + f.node.args.kwonlyargs]
        ndef = len(f.node.args.defaults)
        with_default = set(p.arg for p in f.node.args.args[len(f.node.args.args) - ndef:]) if ndef else set()
        kwargs = {}
        for p in params:
            if p in values:
                kwargs[p] = values[p]
            elif '_' + p in values:
                kwargs[p] = values['_' + p]
            elif p in with_default:
                continue
            else:
                raise RuntimeError(f'contract {ci.name}.{name}: no value for parameter {p}')
        saved = (I.modular, I.inline_set)
        if ci.kind == 'lemma':
            inl = getattr(ci.pycls, 'inline', None)
            if inl is None:
                I.modular = False   # lemma harnesses run the real code of the functions they compose (inlined, not by contract)
            else:
                I.inline_set = set(inl)   # ... or only the named functions, everything else by contract
        try:
            return I.call_function(f, [], kwargs, force_inline=True)
        finally:
            I.modular, I.inline_set = saved

    def apply_external(self, I, ci: ContractInfo, args, kwargs):
        """assumed contract of a standard-library function: clauses see `args` (positional tuple) and the keywords by name"""
        values = {'args': tuple(args), 'kwargs': dict(kwargs)}
        values.update(kwargs)
        I.contract_uses.append((ci.name, I.cur_func, I.cur_line))
        if ci.has('requires'):
            pre = I.truth(self.call_clause(I, ci, 'requires', values))
            I.oblige('pre', f'{ci.name}@{I.cur_line}', pre)
            I.assume(pre)
        return self.call_clause(I, ci, 'model', values) if ci.has('model') else None

    def apply_closure_contract(self, I, ci: ContractInfo, c, args, kwargs):
        """contract of a nested function: its clauses see the parameters and the captured variables of the defining scope"""
        from .interp import Env
        env = Env(c.module, c.cls, c.env.func, c.env)
        I.bind_params(c.node, args, kwargs, env, c.env)
        values = {}
        e = c.env
        while e is not None:
            for k, v in e.vars.items():
                values.setdefault(k, v)
            e = e.parent
        values.update(env.vars)
        I.contract_uses.append((ci.name, I.cur_func, I.cur_line))
        if ci.has('requires'):
            pre = I.truth(self.call_clause(I, ci, 'requires', values))
            I.oblige('pre', f'{ci.name}@{I.cur_line}', pre)
            I.assume(pre)
        if ci.has('raises'):
            table = self.call_clause(I, ci, 'raises', values)
            for exc, cond in table.items():
                if I.branch(I.truth(cond)):
                    I.raise_py(exc)
        return self.call_clause(I, ci, 'model', values)

    def apply_contract(self, I, ci: ContractInfo, f: FuncInfo, args, kwargs):
        """Modular call: assert the precondition, take the exceptional exits the contract describes, return model()."""
        from .interp import Env, zbool, simp
        env = Env(f.module, f.cls, f)
        I.bind_params(f.node, args, kwargs, env, Env(f.module, f.cls, f))
        values = dict(env.vars)
        I.contract_uses.append((ci.name, I.cur_func, I.cur_line))
        if ci.has('requires'):
            pre = I.truth(self.call_clause(I, ci, 'requires', values))
            I.oblige('pre', f'{ci.name}@{I.cur_line}', pre)
            I.assume(pre)
        if ci.has('raises'):
            table = self.call_clause(I, ci, 'raises', values)
            for exc, cond in table.items():
                if I.branch(I.truth(cond)):
                    I.raise_py(exc)
        if ci.has('model'):
            return self.call_clause(I, ci, 'model', values)
        if ci.has('result'):
            return self.call_clause(I, ci, 'result', values)
        return None
