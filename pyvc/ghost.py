"""Ghost helpers for contract code -- native (concrete) versions.  The symbolic versions are in ghost_sym.py.

Contracts are plain Python; these helpers let a clause be written without forking the symbolic executor
(ite instead of if/else, conj/disj/implies instead of and/or) and quantify over finite enums.
"""


def ite(c, a, b):
    return a if c else b


def implies(a, b):
    return (not a) or bool(b)


def conj(*xs):
    return all(xs)


def disj(*xs):
    return any(xs)


def iff(a, b):
    return bool(a) == bool(b)


def forall(xs, f):
    return all(f(x) for x in xs)


def exists(xs, f):
    return any(f(x) for x in xs)


def members(enum_cls):
    return list(enum_cls)


# ---- ghost state (symbolic runs only; natively these are never reached because assumed/callee-only contracts are not
# ---- executed in replays) ----------------------------------------------------------------------------------------
class SymbolicOnly(RuntimeError):
    """a ghost construct that exists in symbolic runs only was reached in a native run: the clause cannot be evaluated natively"""


def havoc_bool(name):
    raise SymbolicOnly('havoc_* is only meaningful in symbolic runs')


def havoc_enum(name, cls):
    raise SymbolicOnly('havoc_* is only meaningful in symbolic runs')


def havoc_int(name):
    raise SymbolicOnly('havoc_* is only meaningful in symbolic runs')


def havoc_str(name):
    raise SymbolicOnly('havoc_* is only meaningful in symbolic runs')


def ghost_set(key, value):
    raise SymbolicOnly('ghost state is only meaningful in symbolic runs')


def ghost_get(key, default=None):
    raise SymbolicOnly('ghost state is only meaningful in symbolic runs')


def symbolic_run():
    return False


def uf_str(name, *args):
    raise SymbolicOnly('uninterpreted functions exist in symbolic runs only (guard with symbolic_run())')


def uf_bool(name, *args):
    raise SymbolicOnly('uninterpreted functions exist in symbolic runs only (guard with symbolic_run())')


def uf_enum(name, cls, arg):
    raise SymbolicOnly('uninterpreted functions exist in symbolic runs only (guard with symbolic_run())')


def fresh_list():
    """a new empty list object (in symbolic runs: one that a loop over a symbolic sequence may append to)"""
    return []


def opaque(tag, *deps):
    raise SymbolicOnly('opaque values exist in symbolic runs only')


def ghost_events():
    raise SymbolicOnly('the ghost event trace exists in symbolic runs only')
