"""Symbolic value domain of pyvc.

Concrete Python values (int, bool, str, None, tuple, list, dict, set) are used as they are; lists/dicts/sets keep
Python identity so aliasing inside the analysed code is preserved.  Symbolic scalars are raw z3 terms
(z3.ArithRef for int, z3.BoolRef for bool).  The classes below cover the rest.
"""
from __future__ import annotations

import z3
from typing import Dict, List, Optional, Tuple


class Unsupported(Exception):
    """The construct is outside the verified Python subset (the function is reported unproved, never 'violated')."""


# ----------------------------------------------------------------------------------------------------- enums
class EnumVal:
    __slots__ = ('cls', 'name', 'value', 'index')

    def __init__(self, cls, name, value, index):
        self.cls, self.name, self.value, self.index = cls, name, value, index

    def __repr__(self):
        return f'{self.cls.name}.{self.name}'


class SEnum:
    """Symbolic member of an Enum class: code = index into the member list (0..n-1)."""
    __slots__ = ('cls', 'code')

    def __init__(self, cls, code):
        self.cls, self.code = cls, code

    def __repr__(self):
        return f'SEnum({self.cls.name},{self.code})'


# ----------------------------------------------------------------------------------------------------- sets
class SSet:
    """Symbolic set over a finite enum: one Bool per member.  kind distinguishes set/list/tuple arguments that are
    only ever used through their set image; `bad` says that the collection also contains a non-member value."""

    def __init__(self, cls, bits: Dict[EnumVal, object], kind: str = 'set', bad=False):
        self.cls, self.bits, self.kind, self.bad = cls, bits, kind, bad

    def copy(self):
        return SSet(self.cls, dict(self.bits), self.kind, self.bad)

    def __repr__(self):
        return f'SSet({self.cls.name},{self.kind})'


class GList:
    """Guarded list: element i is present iff guards[i] holds.  Produced by comprehensions over symbolic sets
    (iteration order over a set is arbitrary, consumers must be order-independent: set(), union, any, all, len>0)."""

    def __init__(self, items: List[Tuple[object, object]]):
        self.items = items   # [(guard, value)]


# ----------------------------------------------------------------------------------------------------- strings
def _is_sym(x):
    return isinstance(x, z3.ExprRef)


class SStr:
    """Template / run-length string.  parts is a tuple of
         ('lit', s)          concrete text
         ('run', ch, n)      character ch repeated n times, n a z3 Int term (negative counts mean 0)
         ('int', n)          decimal rendering of the integer term n (str(n)); never empty, chars in '-0123456789'
         ('sym', e)          opaque z3 String term
       Counts are symbolic, characters are concrete: filters, single-character replace, case mapping, s[0], len, ==
       against concrete text are computed exactly and give linear integer constraints."""

    def __init__(self, parts):
        self.parts = SStr._norm(parts)

    @staticmethod
    def _norm(parts):
        out = []
        for p in parts:
            if p[0] == 'lit':
                if p[1] == '':
                    continue
                if out and out[-1][0] == 'lit':
                    out[-1] = ('lit', out[-1][1] + p[1])
                    continue
                out.append(p)
            elif p[0] == 'run':
                n = p[2]
                if isinstance(n, int):
                    if n > 0:
                        q = ('lit', p[1] * n)
                        if out and out[-1][0] == 'lit':
                            out[-1] = ('lit', out[-1][1] + q[1])
                        else:
                            out.append(q)
                    continue
                n = z3.simplify(n)
                if z3.is_int_value(n):
                    k = n.as_long()
                    if k > 0:
                        if out and out[-1][0] == 'lit':
                            out[-1] = ('lit', out[-1][1] + p[1] * k)
                        else:
                            out.append(('lit', p[1] * k))
                    continue
                out.append(('run', p[1], n))
            else:
                out.append(p)
        return tuple(out)

    @staticmethod
    def of(v):
        if isinstance(v, SStr):
            return v
        if isinstance(v, str):
            return SStr([('lit', v)])
        raise TypeError(f'not a string value: {v!r}')

    def is_concrete(self):
        return all(p[0] == 'lit' for p in self.parts)

    def concrete(self) -> Optional[str]:
        if self.is_concrete():
            return ''.join(p[1] for p in self.parts)
        return None

    def only_runs(self):
        return all(p[0] in ('lit', 'run') for p in self.parts)

    def units(self):
        """Expand into a list of (char, count) with count an int or z3 term; only for lit/run strings."""
        out = []
        for p in self.parts:
            if p[0] == 'lit':
                for ch in p[1]:
                    out.append((ch, 1))
            elif p[0] == 'run':
                out.append((p[1], p[2]))
            else:
                raise Unsupported(f'string part {p[0]} in run-length operation')
        return out

    def __repr__(self):
        def f(p):
            if p[0] == 'lit':
                return repr(p[1])
            if p[0] == 'run':
                return f'{p[1]!r}*({p[2]})'
            if p[0] == 'int':
                return f'str({p[1]})'
            return f'<{p[1]}>'
        return 'SStr(' + ' + '.join(f(p) for p in self.parts) + ')'


def nonneg(n):
    """max(n, 0) for a count term."""
    if isinstance(n, int):
        return max(n, 0)
    return z3.If(n > 0, n, z3.IntVal(0))


def str_concat(a, b):
    if isinstance(a, str) and isinstance(b, str):
        return a + b
    r = SStr(SStr.of(a).parts + SStr.of(b).parts)
    c = r.concrete()
    return c if c is not None else r


def str_len(s):
    if isinstance(s, str):
        return len(s)
    total = 0
    for p in s.parts:
        if p[0] == 'lit':
            total = total + len(p[1])
        elif p[0] == 'run':
            total = total + nonneg(p[2])
        elif p[0] == 'sym':
            total = total + z3.Length(p[1])
        else:
            raise Unsupported('len of str(int)')
    return total


def str_eq_concrete(s: SStr, w: str):
    """Exact formula for  s == w  (s run-length, w concrete)."""
    units = s.units()
    memo = {}

    def eq(i, j):
        key = (i, j)
        if key in memo:
            return memo[key]
        if i == len(units):
            r = z3.BoolVal(j == len(w))
        else:
            ch, n = units[i]
            if isinstance(n, int):
                if n <= 0:
                    r = eq(i + 1, j)
                elif w[j:j + n] == ch * n:
                    r = eq(i + 1, j + n)
                else:
                    r = z3.BoolVal(False)
            else:
                # maximal run of ch in w starting at j
                t = 0
                while j + t < len(w) and w[j + t] == ch:
                    t += 1
                alts = [z3.And(n <= 0, eq(i + 1, j))]
                for k in range(1, t + 1):
                    alts.append(z3.And(n == k, eq(i + 1, j + k)))
                r = z3.Or(*alts)
        memo[key] = r
        return r
    return z3.simplify(eq(0, 0))


def str_eq(a, b):
    """a == b for string values; returns bool or z3 Bool."""
    if isinstance(a, str) and isinstance(b, str):
        return a == b
    if isinstance(a, str):
        a, b = b, a
    if isinstance(b, str):
        if a.only_runs():
            return str_eq_concrete(a, b)
        return _sym_eq(a, SStr.of(b))
    if a.only_runs() and b.only_runs():
        return _rl_eq(a, b)
    return _sym_eq(a, b)


def _to_z3_string(s: SStr):
    terms = []
    for p in s.parts:
        if p[0] == 'lit':
            terms.append(z3.StringVal(p[1]))
        elif p[0] == 'sym':
            terms.append(p[1])
        elif p[0] == 'int':
            terms.append(z3.IntToStr(p[1]))  # only meaningful for n >= 0; callers restrict
        else:
            raise Unsupported('run-length part mixed with opaque string in ==')
    if not terms:
        return z3.StringVal('')
    if len(terms) == 1:
        return terms[0]
    return z3.Concat(*terms)


def to_z3_string(v):
    return _to_z3_string(SStr.of(v))


def _sym_eq(a: SStr, b: SStr):
    if a.parts == b.parts:
        return True
    return _to_z3_string(a) == _to_z3_string(b)


def _rl_eq(a: SStr, b: SStr):
    """Equality of two run-length strings.  Exact when, inside each operand, all characters are pairwise distinct
    and the two operands list their common characters in the same relative order (then a string is determined by its
    per-character counts).  Anything else is outside the subset."""
    ua, ub = _merge_units(a.units()), _merge_units(b.units())
    ca, cb = [c for c, _ in ua], [c for c, _ in ub]
    if len(set(ca)) != len(ca) or len(set(cb)) != len(cb):
        raise Unsupported('run-length equality with a repeated character')
    common_a = [c for c in ca if c in cb]
    common_b = [c for c in cb if c in ca]
    da, db = dict(ua), dict(ub)
    conj = []
    if common_a != common_b:
        # order matters only if both characters of an inverted pair are present
        for x in common_a:
            for y in common_a:
                if x < y and (common_a.index(x) < common_a.index(y)) != (common_b.index(x) < common_b.index(y)):
                    conj.append(z3.Not(z3.And(nonneg(da[x]) > 0, nonneg(da[y]) > 0)))
    for c in set(ca) | set(cb):
        na = nonneg(da[c]) if c in da else 0
        nb = nonneg(db[c]) if c in db else 0
        conj.append(na == nb)
    conj = [c for c in conj if c is not True]
    if any(c is False for c in conj):
        return False
    return z3.simplify(z3.And(*conj)) if conj else True


def _merge_units(units):
    out = []
    for ch, n in units:
        if out and out[-1][0] == ch:
            out[-1] = (ch, nonneg(out[-1][1]) + nonneg(n))
        else:
            out.append((ch, n))
    return out


def str_map_chars(s, fn):
    """Apply a per-character map (returning a string of length <= 1 ... or longer for lit) to a lit/run string."""
    if isinstance(s, str):
        return ''.join(fn(c) for c in s)
    parts = []
    for p in s.parts:
        if p[0] == 'lit':
            parts.append(('lit', ''.join(fn(c) for c in p[1])))
        elif p[0] == 'run':
            r = fn(p[1])
            if r == '':
                continue
            if len(r) != 1:
                raise Unsupported('multi-character replacement on a run')
            parts.append(('run', r, p[2]))
        elif p[0] == 'int':
            # digits and '-' : only maps that leave them alone are supported
            if all(fn(c) == c for c in '-0123456789'):
                parts.append(p)
            else:
                raise Unsupported('character map touches str(int)')
        else:
            raise Unsupported('character map on opaque string')
    r = SStr(parts)
    c = r.concrete()
    return c if c is not None else r


def str_count(s, ch: str):
    if isinstance(s, str):
        return s.count(ch)
    if len(ch) != 1:
        raise Unsupported('count of multi-character needle')
    total = 0
    for c, n in s.units():
        if c == ch:
            total = total + nonneg(n)
    return total


# ----------------------------------------------------------------------------------------------------- objects
class SObj:
    """Instance of a repository class. Identity is Python identity; fields hold values."""
    _next = [0]

    def __init__(self, cls, fresh: bool, label: str = ''):
        self.cls = cls
        self.fields: Dict[str, object] = {}
        self.fresh = fresh          # allocated during the activation under verification
        SObj._next[0] += 1
        self.oid = SObj._next[0]
        self.label = label

    def __repr__(self):
        return f'<{self.cls.name}#{self.oid}{" fresh" if self.fresh else ""}>'


class ExcVal:
    """Instance of a builtin exception class (arguments are not modelled)."""

    def __init__(self, name, args=()):
        self.name = name
        self.args = args


class BuiltinExcClass:
    def __init__(self, name, bases):
        self.name = name
        self.bases = bases   # names, including itself

    def __repr__(self):
        return f'<exc {self.name}>'


BUILTIN_EXCEPTIONS = {
    'BaseException': ['BaseException'],
    'Exception': ['Exception', 'BaseException'],
    'ValueError': ['ValueError', 'Exception', 'BaseException'],
    'TypeError': ['TypeError', 'Exception', 'BaseException'],
    'KeyError': ['KeyError', 'LookupError', 'Exception', 'BaseException'],
    'IndexError': ['IndexError', 'LookupError', 'Exception', 'BaseException'],
    'LookupError': ['LookupError', 'Exception', 'BaseException'],
    'AttributeError': ['AttributeError', 'Exception', 'BaseException'],
    'NotImplementedError': ['NotImplementedError', 'RuntimeError', 'Exception', 'BaseException'],
    'RuntimeError': ['RuntimeError', 'Exception', 'BaseException'],
    'StopIteration': ['StopIteration', 'Exception', 'BaseException'],
    'AssertionError': ['AssertionError', 'Exception', 'BaseException'],
    'ZeroDivisionError': ['ZeroDivisionError', 'ArithmeticError', 'Exception', 'BaseException'],
}


class BoundMethod:
    def __init__(self, func, self_val, defining_cls=None):
        self.func, self.self_val, self.defining_cls = func, self_val, defining_cls


class BuiltinMethod:
    def __init__(self, recv, name):
        self.recv, self.name = recv, name


class SuperProxy:
    def __init__(self, cls, self_val):
        self.cls, self.self_val = cls, self_val


class Closure:
    """A lambda or nested def together with its defining environment."""

    def __init__(self, node, env, module, cls, name='<lambda>'):
        self.node, self.env, self.module, self.cls, self.name = node, env, module, cls, name


class NativeFn:
    """A Python callable provided by the framework (ghost helpers)."""

    def __init__(self, fn, name):
        self.fn, self.name = fn, name


class SPredSet:
    """A collection known only through membership: `x in S` is an uninterpreted predicate of x (an arbitrary set of ints)."""

    def __init__(self, fn, name):
        self.fn, self.name = fn, name


class Spread:
    """an item of an XList that stands for all the elements of a symbolic sequence, in order (the list was extended by it)"""
    def __init__(self, pipe):
        self.pipe = pipe

    def __repr__(self):
        return f'*{getattr(getattr(self.pipe, "src", None), "name", "?")}'


class XList:
    """A mutable list object: the elements of an immutable symbolic base sequence (possibly none) followed by finitely many
    appended items; an item may be a Spread (a whole symbolic sequence spliced in).  Identity is Python identity (aliasing is
    preserved); a mutation of a pre-existing XList is a frame event."""

    def has_spread(self):
        return any(isinstance(x, Spread) for x in self.items)

    def segments(self):
        """[('pipe', SSeq) | ('items', [values])] in order"""
        out = []
        if self.base is not None:
            out.append(('pipe', self.base))
        for x in self.items:
            if isinstance(x, Spread):
                out.append(('pipe', x.pipe))
            elif out and out[-1][0] == 'items':
                out[-1][1].append(x)
            else:
                out.append(('items', [x]))
        return out

    def __init__(self, base=None, items=None, prestate=True):
        self.base = base
        self.items = list(items or [])
        self.prestate = prestate

    def copy(self):
        return XList(self.base, self.items, self.prestate)

    def __repr__(self):
        return f'XList(base={getattr(getattr(self.base, "src", None), "name", None)}, +{len(self.items)})'
