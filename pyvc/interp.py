"""Symbolic interpreter: executes the ast of a repository function (and of contract/spec functions) on symbolic values.

One run follows one path.  Forks are resolved by a decision vector (re-execution, no state copying): when a run meets a
symbolic branch beyond the prescribed prefix it takes alternative 0 and records the arity, the driver then schedules
the other alternatives.  Fresh symbol names are deterministic, so the same obligation generated on two paths that
share a prefix is textually identical and is discharged once.
"""
from __future__ import annotations

import ast
import z3
from typing import Dict, List, Optional

from .source import SourceIndex, FuncInfo, ClassInfo, ModuleInfo
from .values import (Unsupported, EnumVal, SEnum, SSet, GList, SStr, SObj, ExcVal, BuiltinExcClass, XList, Spread,
                     BUILTIN_EXCEPTIONS, BoundMethod, BuiltinMethod, SuperProxy, Closure, NativeFn,
                     str_concat, str_len, str_eq, str_map_chars, str_count, nonneg, to_z3_string)


class PyRaise(Exception):
    def __init__(self, exc_name, bases, line=None, func=None, value=None):
        super().__init__(exc_name)
        self.exc_name, self.bases, self.line, self.func, self.value = exc_name, bases, line, func, value


class _Return(Exception):
    def __init__(self, value):
        self.value = value


class _Break(Exception):
    pass


class _Continue(Exception):
    pass


class _BadElem:
    """Stands for an element of a collection that is not a member of the expected enum (isinstance is False)."""
    def __repr__(self):
        return '<non-member>'


BAD_ELEM = _BadElem()


class Opaque:
    """A value the verifier does not look into (file objects, ANTLR objects, csv readers, lines of an unknown text).  It has
    identity, remembers attributes stored on it, and every call on it (or of an external function) is recorded as a ghost
    event (tag, method, args) that contract clauses can inspect; results of such calls are fresh opaque values; the truth
    value of an opaque result is an unknown Bool (both branches are explored)."""
    _n = [0]

    def __init__(self, tag, deps=()):
        self.tag, self.deps = tag, tuple(deps)
        self.attrs = {}
        Opaque._n[0] += 1
        self.n = Opaque._n[0]
        self.truth_var = None

    def __repr__(self):
        return f'<opaque {self.tag}>'


class ExtName:
    """an external (standard library / third party) name: attribute access extends the dotted name, a call is an event"""
    def __init__(self, qual, I):
        self.qual, self.I = qual, I

    def __repr__(self):
        return f'<external {self.qual}>'


class OpaqueMethod:
    def __init__(self, obj, name):
        self.obj, self.name = obj, name


class Havoc:
    """the unknown value of a variable after a loop that the verifier could not follow (only used on the way to a cut point:
    any use other than a truth test leaves the subset)"""
    def __init__(self, name):
        self.name = name
        self.truth_var = None

    def __repr__(self):
        return f'<havoc {self.name}>'


class _UnknownTarget:
    """the receiver of a write inside a loop that was not followed"""
    def __repr__(self):
        return '<an object the function did not create>'


_UNKNOWN_TARGET = _UnknownTarget()


class ShapeOutOfDate(Exception):
    """the contract (not the code) needs an update: a checker error, never a verdict"""


class CutReached(Exception):
    """the cut-point loop of the contract under verification was reached: its clauses are evaluated, the path ends"""
    def __init__(self, env):
        self.env = env


class Infeasible(Exception):
    """The current path condition is unsatisfiable (pruned)."""


class Obligation:
    def __init__(self, oid, kind, pc, goal, line, func, note=''):
        self.oid, self.kind, self.pc, self.goal, self.line, self.func, self.note = oid, kind, list(pc), goal, line, func, note


class Env:
    def __init__(self, module: ModuleInfo, cls: Optional[ClassInfo], func, parent: Optional['Env'] = None):
        self.vars: Dict[str, object] = {}
        self.module, self.cls, self.func, self.parent = module, cls, func, parent

    def lookup(self, name):
        e = self
        while e is not None:
            if name in e.vars:
                return True, e.vars[name]
            e = e.parent
        return False, None


def is_sym(v):
    return isinstance(v, z3.ExprRef)


def is_bool_sym(v):
    return isinstance(v, z3.BoolRef)


def is_int_sym(v):
    return isinstance(v, z3.ArithRef)


def zint(v):
    if isinstance(v, bool):
        return z3.IntVal(1 if v else 0)
    if isinstance(v, int):
        return z3.IntVal(v)
    if is_int_sym(v):
        return v
    if is_bool_sym(v):
        return z3.If(v, z3.IntVal(1), z3.IntVal(0))
    raise Unsupported(f'not an int value: {v!r}')


def zbool(v):
    if isinstance(v, bool):
        return z3.BoolVal(v)
    if is_bool_sym(v):
        return v
    raise Unsupported(f'not a bool value: {v!r}')


def simp(e):
    e = z3.simplify(e)
    if z3.is_true(e):
        return True
    if z3.is_false(e):
        return False
    if z3.is_int_value(e):
        return e.as_long()
    return e


class Interp:
    MAX_CALL_DEPTH = 60
    MAX_UNROLL = 400

    def __init__(self, index: SourceIndex, registry=None, prune=True):
        self.index = index
        self.registry = registry      # contracts registry (may be None)
        self.prune = prune
        self.enum_cache: Dict[str, List[EnumVal]] = {}
        self.fork_cache = {}
        self.valid_cache = {}
        self.reset([])
        from . import ghost_sym, loops
        self.natives = ghost_sym.natives(self)
        self.loops = loops

    # ------------------------------------------------------------------------------------------------ run state
    def reset(self, decisions):
        self.decisions = list(decisions)
        self.dpos = 0
        self.forks_since = 0
        self.arities: List[int] = []
        self.pc: List[z3.BoolRef] = []
        self.obligations: List[Obligation] = []
        self.fresh_n = 0
        self.input_vars: Dict[str, object] = {}
        self.depth = 0
        self.cur_func = None
        self.cur_line = None
        self.const_cache: Dict[str, object] = {}
        self.prestate_ids = set()
        self.writes = []            # (line, func, target descr, fresh?)
        self.modular = True          # use contracts at call sites
        self.inline_set = set()      # ... except for these functions (lemma harnesses that compose real bodies)
        self.verifying = None        # qualname of the function under verification (its own contract is not used at depth 0)
        self.contract_uses = []
        self.inlined = set()
        self.solver = z3.Solver()
        self.solver.set('timeout', 400)
        self.no_prune = False
        self.ob_counter: Dict[str, int] = {}
        self.ghost: Dict[str, object] = {}
        self.ghost_names: Dict[str, int] = {}
        self.events = []            # ghost trace of calls on external / opaque objects
        self.cut_text = None        # source text of the loop header at which the contract under verification is evaluated
        self.havoc_loops = False    # on the way to a cut point, loops the rules cannot follow are over-approximated by havoc
        from .seq import PipeTable
        self.pipes = PipeTable(self)
        self.pointwise = 0
        self.merge_ifs = 0
        self.guards = []            # conditions of the merged branches / short-circuit operands being evaluated (per-element evaluation)
        self.merge_depth = 0         # > 0 inside a branch of a merged if
        self.recording = None        # list of (XList, value) appends recorded during the per-element evaluation of an effect loop
        self.body_lists = set()      # ids of the Python lists created inside the body being evaluated per element
        self.read_lists = []         # symbolic lists read (membership, length, iteration) during such an evaluation
        SObj._next[0] = 0

    def fresh(self, base, sort='int'):
        self.fresh_n += 1
        name = f'{base}!{self.fresh_n}'
        if sort == 'int':
            return z3.Int(name)
        if sort == 'bool':
            return z3.Bool(name)
        if sort == 'str':
            return z3.String(name)
        raise ValueError(sort)

    def assume(self, cond):
        if cond is True:
            return
        if cond is False:
            raise Infeasible()
        cond = zbool(cond)
        self.pc.append(cond)
        if self._prunable(cond):
            self.solver.add(cond)
        else:
            self.no_prune = True

    def _prunable(self, cond):
        return True

    def feasible(self, cond) -> bool:
        if cond is True:
            return True
        if cond is False:
            return False
        if not self.prune or self.no_prune:
            return True
        r = self.solver.check(cond)
        return r != z3.unsat

    def fork(self, conds: list, label='') -> int:
        """Choose one of mutually exclusive, jointly exhaustive alternatives; returns its index."""
        if self.pointwise:
            raise Unsupported('path fork inside a pointwise (per-element) evaluation')
        # the k-th fork under a given decision prefix is the same fork in every re-execution: cache its feasible set
        key = (tuple(self.decisions[:self.dpos]), self.forks_since, len(conds))
        self.forks_since += 1
        feas = self.fork_cache.get(key)
        if feas is None:
            feas = [i for i, c in enumerate(conds) if self.feasible(c)]
            self.fork_cache[key] = feas
        if not feas:
            raise Infeasible()
        if len(feas) == 1:
            self.assume(conds[feas[0]])
            return feas[0]
        if self.dpos < len(self.decisions):
            k = self.decisions[self.dpos]
        else:
            k = 0
            self.decisions.append(0)
        self.arities.append(len(feas))
        self.dpos += 1
        self.forks_since = 0
        if k >= len(feas):
            raise Infeasible()
        self.assume(conds[feas[k]])
        return feas[k]

    def branch(self, cond) -> bool:
        """Truth of a (possibly symbolic) condition; forks if needed."""
        if isinstance(cond, bool):
            return cond
        c = simp(zbool(cond))
        if isinstance(c, bool):
            return c
        return self.fork([c, z3.Not(c)]) == 0

    def provably_false(self, cond) -> bool:
        """is `cond` false on every model of the path condition?  (in-process, short budget; 'no' also when undecided)"""
        if isinstance(cond, bool):
            return not cond
        c = simp(zbool(cond))
        if isinstance(c, bool):
            return not c
        s = z3.Solver()
        s.set('timeout', 2000)
        for x in self.pc:
            s.add(x)
        s.add(c)
        return s.check() == z3.unsat

    def oblige(self, kind, label, goal, note=''):
        base = f'{kind}:{label}' if label else kind
        n = self.ob_counter.get(base, 0)
        self.ob_counter[base] = n + 1
        oid = base if n == 0 else f'{base}#{n}'
        if goal is True:
            goal = z3.BoolVal(True)
        elif goal is False:
            goal = z3.BoolVal(False)
        self.obligations.append(Obligation(oid, kind, self.pc, zbool(goal), self.cur_line, self.cur_func, note))

    def oblige_with(self, hyps, kind, label, goal, note=''):
        saved = list(self.pc)
        for h in hyps:
            if h is not True:
                self.pc.append(zbool(h))
        try:
            self.oblige(kind, label, goal, note)
        finally:
            self.pc = saved

    def compare_len_positive(self, v):
        if isinstance(v, str):
            return len(v) > 0
        if isinstance(v, SStr):
            return simp(zint(str_len(v)) > 0)
        raise Unsupported('length of a non-string element')

    def raise_py(self, name, value=None):
        bases = BUILTIN_EXCEPTIONS.get(name, [name, 'Exception', 'BaseException'])
        raise PyRaise(name, bases, self.cur_line, self.cur_func, value)

    # ------------------------------------------------------------------------------------------------ enums
    def enum_members(self, cls: ClassInfo) -> List[EnumVal]:
        if cls.qualname in self.enum_cache:
            return self.enum_cache[cls.qualname]
        members, by_name = [], {}
        auto_n = 0
        for name in cls.class_assign_order:
            expr = cls.class_assigns[name]
            if name.startswith('_'):
                continue
            if isinstance(expr, ast.Call) and ast.unparse(expr.func) == 'auto':
                auto_n += 1
                val = auto_n
            elif isinstance(expr, ast.Constant):
                val = expr.value
                if isinstance(val, int):
                    auto_n = val
            elif isinstance(expr, ast.UnaryOp) and isinstance(expr.op, ast.USub) and isinstance(expr.operand, ast.Constant):
                val = -expr.operand.value
            elif isinstance(expr, ast.Name) and expr.id in by_name:
                by_name[name] = by_name[expr.id]   # alias
                continue
            else:
                continue   # not a member (e.g. a typing alias)
            dup = [m for m in members if m.value == val]
            if dup:
                by_name[name] = dup[0]
                continue
            m = EnumVal(cls, name, val, len(members))
            members.append(m)
            by_name[name] = m
        self.enum_cache[cls.qualname] = members
        self.enum_cache[cls.qualname + '#names'] = by_name
        return members

    def enum_by_name(self, cls: ClassInfo, name: str) -> Optional[EnumVal]:
        self.enum_members(cls)
        return self.enum_cache[cls.qualname + '#names'].get(name)

    def enum_code(self, v):
        if isinstance(v, EnumVal):
            return v.index
        return v.code

    def enum_split(self, v: SEnum) -> EnumVal:
        """Case split a symbolic enum value into a concrete member (forks)."""
        ms = self.enum_members(v.cls)
        k = self.fork([v.code == m.index for m in ms])
        return ms[k]

    # ------------------------------------------------------------------------------------------------ truthiness
    def truth(self, v):
        if v is None:
            return False
        if isinstance(v, (bool, int, str, list, tuple, dict, set, frozenset, range)):
            return bool(v)
        if is_bool_sym(v):
            return v
        if is_int_sym(v):
            return v != 0
        if isinstance(v, SStr):
            return simp(zint(str_len(v)) > 0)
        if isinstance(v, SSet):
            bits = [b for b in v.bits.values() if b is not False]
            if any(b is True for b in bits) or v.bad is True:
                return True
            extra = [v.bad] if is_sym(v.bad) else []
            return simp(z3.Or(*(bits + extra))) if (bits or extra) else False
        if isinstance(v, SObj):
            m = v.cls.find_method('__bool__') or v.cls.find_method('__len__')
            if m is not None:
                r = self.call_function(m, [v], {})
                return self.truth(r)
            return True
        if isinstance(v, Opaque):
            if v.truth_var is None:
                v.truth_var = self.fresh(f'truth({v.tag})', 'bool')
            return v.truth_var
        if isinstance(v, Havoc):
            if v.truth_var is None:
                v.truth_var = self.fresh(f'truth({v.name})', 'bool')
            return v.truth_var
        if isinstance(v, (EnumVal, SEnum, ClassInfo, FuncInfo, Closure, BoundMethod, NativeFn, ExcVal, ExtName)):
            return True
        from .seq import SSeq
        if isinstance(v, SSeq):
            return self.pipes.observable(v, 'ne')
        if isinstance(v, XList):
            if self.recording is not None:
                self.read_lists.append(v)
            if any(not isinstance(x, Spread) for x in v.items):
                return True
            acc = False
            for kind, seg in v.segments():
                acc = _or(acc, self.pipes.observable(seg, 'ne'))
            return acc
        if getattr(v, '_pyvc_native', False):
            return True
        raise Unsupported(f'truthiness of {type(v).__name__}')

    def is_true(self, v) -> bool:
        return self.branch(self.truth(v))

    # ------------------------------------------------------------------------------------------------ names
    def mangle(self, attr: str, env: Env) -> str:
        if attr.startswith('__') and not attr.endswith('__') and env is not None and env.cls is not None:
            return f'_{env.cls.name.lstrip("_")}{attr}'
        return attr

    def lookup_name(self, name: str, env: Env):
        found, v = env.lookup(name)
        if found:
            return v
        return self.global_name(name, env.module)

    def global_name(self, name: str, module: ModuleInfo):
        r = module.resolve_static(name)
        if r is not None:
            return self.static_value(r, name)
        return self.builtin_name(name)

    def static_value(self, r, name=''):
        if isinstance(r, (FuncInfo, ClassInfo, ModuleInfo)):
            return r
        if isinstance(r, tuple) and r[0] == 'const':
            _, module, expr = r
            key = f'{module.name}:{id(expr)}'
            if key not in self.const_cache and '__pyvc_native_data__' in module.assigns:
                import importlib
                native = importlib.import_module(module.name)
                for n, e in module.assigns.items():
                    if e is expr:
                        self.const_cache[key] = _native_data(getattr(native, n))
                        self.mark_prestate(self.const_cache[key])
            if key not in self.const_cache:
                env = Env(module, None, None)
                v = self.ev(expr, env)
                self.const_cache[key] = v
                self.mark_prestate(v)
            return self.const_cache[key]
        if isinstance(r, tuple) and r[0] == 'ext':
            return self.external(r[1])
        raise Unsupported(f'cannot resolve {name}')

    def mark_prestate(self, v, _depth=0):
        if isinstance(v, (list, dict, set)):
            self.prestate_ids.add(id(v))
            if _depth < 6:
                it = v.values() if isinstance(v, dict) else v
                for x in it:
                    self.mark_prestate(x, _depth + 1)

    def external(self, qual: str):
        if qual in self.natives:
            return self.natives[qual]
        if self.registry is not None and self.registry.by_target.get(qual):
            # decided at call time: a local external contract applies only inside the contracts that ask for it (`uses`), and the
            # value of an imported name may be resolved once per module and reused
            def call_ext(*a, **k):
                ci = self.registry.for_call(qual)
                if ci is not None:
                    return self.registry.apply_external(self, ci, a, k)
                self.events.append(('ext', qual, tuple(a), dict(k)))
                return Opaque(qual.rsplit('.', 1)[-1], a)
            return NativeFn(call_ext, qual)

        short = qual.rsplit('.', 1)[-1]
        if qual in ('copy.deepcopy', 'copy.copy'):
            return NativeFn(lambda a: self.builtin_copy(a, deep=qual.endswith('deepcopy')), qual)
        if short in ('Optional', 'List', 'Dict', 'Set', 'Union', 'Any', 'Tuple', 'Sequence', 'Callable', 'ABC',
                     'abstractmethod', 'Enum', 'auto', 'annotations'):
            return ('typing', short)
        return ExtName(qual, self)

    def builtin_name(self, name: str):
        if name in BUILTIN_EXCEPTIONS:
            return BuiltinExcClass(name, BUILTIN_EXCEPTIONS[name])
        if name in ('len', 'isinstance', 'set', 'list', 'tuple', 'dict', 'any', 'all', 'sorted', 'str', 'int', 'max', 'min',
                    'sum', 'range', 'enumerate', 'reversed', 'zip', 'getattr', 'print', 'bool', 'abs', 'type', 'super',
                    'filter', 'map', 'iter', 'next', 'hash', 'id', 'repr', 'frozenset', 'setattr', 'hasattr', 'object',
                    'NotImplemented', 'issubclass', 'open', 'float'):
            return ('builtin', name)
        raise Unsupported(f'unknown name {name}')

    # ------------------------------------------------------------------------------------------------ statements
    def exec_block(self, stmts, env: Env):
        for st in stmts:
            self.exec_stmt(st, env)

    def exec_stmt(self, st, env: Env):
        self.cur_line = getattr(st, 'lineno', self.cur_line)
        m = getattr(self, 'st_' + type(st).__name__, None)
        if m is None:
            raise Unsupported(f'statement {type(st).__name__} at line {self.cur_line}')
        m(st, env)

    def st_Expr(self, st, env):
        if isinstance(st.value, ast.Constant):
            return   # docstring
        self.ev(st.value, env)

    def st_Pass(self, st, env):
        pass

    def st_Break(self, st, env):
        raise _Break()

    def st_Continue(self, st, env):
        raise _Continue()

    def st_Return(self, st, env):
        raise _Return(self.ev(st.value, env) if st.value is not None else None)

    def st_Assign(self, st, env):
        v = self.ev(st.value, env)
        if (isinstance(st.value, ast.List) and not st.value.elts and len(st.targets) == 1 and isinstance(st.targets[0], ast.Name)
                and self._extended_later(env, st.targets[0].id)):
            # `name = []` that is `.extend(...)`-ed later in the same function: a list object that can take whole symbolic
            # sequences (the same object semantics, a richer representation)
            v = XList(None, [], False)
        for t in st.targets:
            self.assign(t, v, env)

    def _extended_later(self, env, name):
        fnode = getattr(getattr(env, 'func', None), 'node', None)
        if fnode is None:
            return False
        key = (id(fnode), name)
        cache = self.__dict__.setdefault('_ext_cache', {})
        if key not in cache:
            cache[key] = any(isinstance(n, ast.Call) and isinstance(n.func, ast.Attribute) and n.func.attr == 'extend'
                             and isinstance(n.func.value, ast.Name) and n.func.value.id == name for n in ast.walk(fnode))
        return cache[key]

    def st_AnnAssign(self, st, env):
        if st.value is not None:
            self.assign(st.target, self.ev(st.value, env), env)

    def st_AugAssign(self, st, env):
        cur = self.ev(_load(st.target), env)
        rhs = self.ev(st.value, env)
        if isinstance(cur, list) and isinstance(st.op, ast.Add):
            self.note_write(cur, 'list +=')
            cur.extend(self.iterate(rhs))
            return
        if isinstance(cur, (set, SSet)) and isinstance(st.op, (ast.BitOr, ast.BitAnd, ast.Sub)):
            # in-place set operators mutate the object (aliases see the change)
            self.note_write(cur, 'set ' + {ast.BitOr: '|=', ast.BitAnd: '&=', ast.Sub: '-='}[type(st.op)])
            new = self.binop(st.op, cur, rhs)
            if isinstance(cur, set) and isinstance(new, (set, frozenset)):
                cur.clear()
                cur.update(new)
                return
            if isinstance(cur, SSet) and isinstance(new, SSet):
                cur.bits = dict(new.bits)
                return
            raise Unsupported('in-place set operator between a concrete and a symbolic set')
        if isinstance(cur, XList) and isinstance(st.op, ast.Add):
            from . import builtins_sym
            builtins_sym.call_method(self, cur, 'extend', [rhs], {})
            return
        self.assign(st.target, self.binop(st.op, cur, rhs), env)

    def st_Assert(self, st, env):
        # asserts in contract code are assumptions about the spec vocabulary itself; none occur in verified repo code
        if not self.is_true(self.ev(st.test, env)):
            self.raise_py('AssertionError')

    def st_Import(self, st, env):
        for a in st.names:
            env.vars[a.asname or a.name.split('.')[0]] = self.external(a.name)

    def st_ImportFrom(self, st, env):
        mod = env.module._abs_module(st.module, st.level)
        m = self.index.modules.get(mod)
        for a in st.names:
            if m is not None:
                r = m.resolve_static(a.name)
                if r is None:
                    raise Unsupported(f'import {a.name} from {mod}')
                env.vars[a.asname or a.name] = self.static_value(r, a.name)
            else:
                env.vars[a.asname or a.name] = self.external(f'{mod}.{a.name}')

    def st_FunctionDef(self, st, env):
        env.vars[st.name] = Closure(st, env, env.module, env.cls, st.name)

    def st_If(self, st, env):
        if self.merge_ifs or self.pointwise:
            t = self.truth(self.ev(st.test, env))
            if not isinstance(t, bool):
                t = simp(zbool(t))
            if not isinstance(t, bool):
                return self.merged_if(st, t, env)
            self.exec_block(st.body if t else st.orelse, env)
            return
        if self.is_true(self.ev(st.test, env)):
            self.exec_block(st.body, env)
        else:
            self.exec_block(st.orelse, env)

    def merged_if(self, st, cond, env):
        """if/else executed on both sides and merged with ite (used inside per-element loop bodies: no forks)"""
        base = dict(env.vars)
        nw = len(self.writes)
        rec = self.recording
        try:
            # appends recorded inside the two branches (effect loops): allowed when both branches append to the same lists, one
            # value each -- the recorded value is then the merged one
            if rec is not None:
                self.recording = []
            self.guards.append(cond)
            try:
                self.exec_block(st.body, env)
            finally:
                self.guards.pop()
            then_vars, then_rec = dict(env.vars), self.recording
            env.vars.clear()
            env.vars.update(base)
            if rec is not None:
                self.recording = []
            self.guards.append(_not(cond))
            try:
                self.exec_block(st.orelse, env)
            finally:
                self.guards.pop()
            else_vars, else_rec = dict(env.vars), self.recording
        except (PyRaise, _Return, _Break, _Continue):
            raise Unsupported('raise / return / break inside a branch of a per-element (merged) evaluation')
        finally:
            self.recording = rec
        if any(not w[3] for w in self.writes[nw:]):      # (writes that initialise objects created in the branch are not effects)
            raise Unsupported('heap write inside a merged branch')
        if rec is not None and (then_rec or else_rec):
            if len(then_rec) == len(else_rec) and all(a[0] is b[0] and a[2] is True and b[2] is True for a, b in zip(then_rec, else_rec)):
                # both branches append one value each to the same lists: one append of the merged value
                for (xl, a, _), (_, b, _) in zip(then_rec, else_rec):
                    rec.append((xl, a if a is b else self.ite_value(cond, a, b), True))
            elif not else_rec or not then_rec:
                # one branch appends: a guarded append (the loop rule turns the guard into a filter)
                for (xl, a, g) in then_rec:
                    rec.append((xl, a, _and(g, cond)))
                for (xl, b, g) in else_rec:
                    rec.append((xl, b, _and(g, _not(cond))))
            else:
                raise Unsupported('the branches of a per-element evaluation append differently')
        merged = {}
        for k in set(then_vars) | set(else_vars):
            if k not in then_vars or k not in else_vars:
                # defined on one side only: kept (reading it after the other side was taken would be an UnboundLocalError)
                merged[k] = then_vars.get(k, else_vars.get(k))
                continue
            a, b = then_vars[k], else_vars[k]
            merged[k] = a if a is b else self.ite_value(cond, a, b)
        env.vars.clear()
        env.vars.update(merged)

    def ite_value(self, c, a, b):
        if isinstance(a, (str, SStr)) and isinstance(b, (str, SStr)):
            return SStr([('sym', z3.If(c, to_z3_string(a), to_z3_string(b)))])
        if (isinstance(a, bool) or is_bool_sym(a)) and (isinstance(b, bool) or is_bool_sym(b)):
            return simp(z3.If(c, zbool(a), zbool(b)))
        if _intlike(a) and _intlike(b):
            return simp(z3.If(c, zint(a), zint(b)))
        if isinstance(a, (EnumVal, SEnum)) and isinstance(b, (EnumVal, SEnum)) and a.cls.qualname == b.cls.qualname:
            return SEnum(a.cls, simp(z3.If(c, zint(self.enum_code(a)), zint(self.enum_code(b)))))
        if isinstance(a, SObj) and isinstance(b, SObj) and a.cls is b.cls and a.fresh and b.fresh and set(a.fields) == set(b.fields):
            # two objects created in the two branches: one object whose fields are merged
            o = SObj(a.cls, True)
            for k in a.fields:
                o.fields[k] = a.fields[k] if a.fields[k] is b.fields[k] else self.ite_value(c, a.fields[k], b.fields[k])
            return o
        if a is None and b is None:
            return None
        raise Unsupported(f'cannot merge {type(a).__name__} and {type(b).__name__}')

    def st_Raise(self, st, env):
        if st.exc is None:
            raise Unsupported('bare raise')
        exc = st.exc
        # the message of a builtin exception is not modelled (S-exc-msg): its arguments are not evaluated
        if isinstance(exc, ast.Call):
            f = self.ev(exc.func, env)
            if isinstance(f, BuiltinExcClass):
                raise PyRaise(f.name, f.bases, self.cur_line, self.cur_func)
            v = self.ev(exc, env)
        else:
            v = self.ev(exc, env)
            if isinstance(v, BuiltinExcClass):
                raise PyRaise(v.name, v.bases, self.cur_line, self.cur_func)
        if isinstance(v, ExcVal):
            raise PyRaise(v.name, BUILTIN_EXCEPTIONS.get(v.name, [v.name]), self.cur_line, self.cur_func, v)
        if isinstance(v, SObj):
            raise PyRaise(v.cls.name, v.cls.base_name_closure(), self.cur_line, self.cur_func, v)
        raise Unsupported('raise of a non-exception value')

    def st_Try(self, st, env):
        if st.finalbody:
            raise Unsupported('try/finally')
        try:
            self.exec_block(st.body, env)
        except PyRaise as e:
            for h in st.handlers:
                if self.handler_matches(h, e, env):
                    if h.name:
                        env.vars[h.name] = e.value if e.value is not None else ExcVal(e.exc_name)
                    self.exec_block(h.body, env)
                    return
            raise
        else:
            self.exec_block(st.orelse, env)

    def handler_matches(self, h, e: PyRaise, env) -> bool:
        if h.type is None:
            return True
        types = h.type.elts if isinstance(h.type, ast.Tuple) else [h.type]
        for t in types:
            v = self.ev(t, env)
            if isinstance(v, BuiltinExcClass) and v.name in e.bases:
                return True
            if isinstance(v, ClassInfo) and v.name in e.bases:
                return True
        return False

    def _is_cut(self, st):
        if self.cut_text is None or self.depth != 1:
            return False
        head = ast.unparse(st).split('\n')[0].rstrip(':').strip()
        return head.startswith(self.cut_text)

    def havoc_loop(self, st, env):
        """sound over-approximation of a loop: every local it assigns or mutates becomes unknown"""
        names = set()
        for n in ast.walk(st):
            if isinstance(n, (ast.Assign, ast.AugAssign, ast.AnnAssign)):
                for t in (n.targets if isinstance(n, ast.Assign) else [n.target]):
                    for m in ast.walk(t):
                        if isinstance(m, ast.Name):
                            names.add(m.id)
            elif isinstance(n, (ast.For, ast.comprehension)):
                for m in ast.walk(n.target):
                    if isinstance(m, ast.Name):
                        names.add(m.id)
            elif isinstance(n, ast.Call) and isinstance(n.func, ast.Attribute) and isinstance(n.func.value, ast.Name) \
                    and n.func.attr in ('append', 'insert', 'extend', 'pop', 'update', 'add', 'clear', 'remove', 'sort'):
                names.add(n.func.value.id)
            # (a return / raise inside the loop leaves the function without reaching the cut point: such paths are not the
            # subject of a cut-point contract)
        for nm in names:
            env.vars[nm] = Havoc(nm)
        # the heap effect of the loop is not followed either: every write in it must go to a list / dict / set that this very
        # function created (syntactic ownership: all bindings of the receiver name are literals, comprehensions or copies);
        # anything else is recorded as a write to a pre-existing object (a frame event, see the cut-point obligation)
        for line, what in self.loop_heap_writes(st):
            self.writes.append((line, self.cur_func, what, False, _UNKNOWN_TARGET))

    MUTATORS = ('append', 'insert', 'extend', 'pop', 'update', 'add', 'clear', 'remove', 'sort', 'reverse', 'discard', 'setdefault',
                'popitem', 'put', 'get_nowait', 'appendleft', 'popleft', '__setitem__', '__delitem__', '__setattr__')

    def _owned_names(self, func_node, upto):
        """names of `func_node` that are, up to source line `upto` (the end of a loop at the top level of the function: a binding
        after it cannot reach into it), only ever bound to containers created by the function itself"""
        binds = {}
        params = {a.arg for a in func_node.args.args + func_node.args.kwonlyargs + func_node.args.posonlyargs}
        if func_node.args.vararg:
            params.add(func_node.args.vararg.arg)
        if func_node.args.kwarg:
            params.add(func_node.args.kwarg.arg)
        foreign = set(params)
        for n in ast.walk(func_node):
            if getattr(n, 'lineno', 0) > upto:
                continue
            if isinstance(n, ast.Assign):
                for t in n.targets:
                    if isinstance(t, ast.Name):
                        binds.setdefault(t.id, []).append(n.value)
                    else:
                        for m in ast.walk(t):
                            if isinstance(m, ast.Name) and isinstance(m.ctx, ast.Store):
                                foreign.add(m.id)      # tuple unpacking: unknown origin
            elif isinstance(n, ast.AnnAssign) and isinstance(n.target, ast.Name) and n.value is not None:
                binds.setdefault(n.target.id, []).append(n.value)
            elif isinstance(n, (ast.For, ast.comprehension)):
                for m in ast.walk(n.target):
                    if isinstance(m, ast.Name):
                        foreign.add(m.id)
            elif isinstance(n, (ast.With,)):
                for it in n.items:
                    if it.optional_vars is not None:
                        for m in ast.walk(it.optional_vars):
                            if isinstance(m, ast.Name):
                                foreign.add(m.id)
            elif isinstance(n, ast.NamedExpr) and isinstance(n.target, ast.Name):
                foreign.add(n.target.id)
            elif isinstance(n, ast.ExceptHandler) and n.name:
                foreign.add(n.name)
        owned = {nm for nm in binds if nm not in foreign}
        changed = True
        while changed:
            changed = False
            for nm in list(owned):
                for v in binds[nm]:
                    ok = (isinstance(v, (ast.List, ast.Dict, ast.Set, ast.ListComp, ast.DictComp, ast.SetComp, ast.Constant, ast.JoinedStr))
                          or (isinstance(v, ast.Call) and isinstance(v.func, ast.Name) and v.func.id in ('list', 'dict', 'set', 'sorted', 'copy', 'deepcopy')
                              and not (v.func.id in ('copy', 'deepcopy') and False))
                          or (isinstance(v, ast.Name) and v.id in owned))
                    if not ok:
                        owned.discard(nm)
                        changed = True
                        break
        return owned

    def loop_heap_writes(self, st):
        """[(line, description)] of the statements of loop `st` that may write to an object the enclosing function did not create"""
        try:
            func = self.index.function(self.cur_func).node
        except Exception:
            func = None
        owned = self._owned_names(func, getattr(st, 'end_lineno', 10 ** 9)) if func is not None else set()
        out = []

        def root(e):
            while isinstance(e, (ast.Attribute, ast.Subscript)):
                e = e.value
            return e
        for n in ast.walk(st):
            if isinstance(n, (ast.Attribute, ast.Subscript)) and isinstance(n.ctx, (ast.Store, ast.Del)):
                r = n.value
                if not (isinstance(r, ast.Name) and r.id in owned):
                    out.append((getattr(n, 'lineno', None), f' {ast.unparse(n)} = ... (in a loop)'))
            elif isinstance(n, ast.Call) and isinstance(n.func, ast.Attribute) and n.func.attr in self.MUTATORS:
                r = n.func.value
                if not (isinstance(r, ast.Name) and r.id in owned):
                    out.append((getattr(n, 'lineno', None), f' {ast.unparse(n.func)}() (in a loop)'))
        return out

    def st_For(self, st, env):
        if self._is_cut(st):
            raise CutReached(env)
        if self.havoc_loops and self.depth == 1:
            saved = dict(env.vars)
            try:
                return self._st_For(st, env)
            except (Unsupported, ShapeOutOfDate):      # (a loop that reads what the shape of the cut-point contract does not describe)
                env.vars.clear()
                env.vars.update(saved)
                return self.havoc_loop(st, env)
        return self._st_For(st, env)

    def _range_len_of_sequence(self, node, env):
        """`range(len(S))` over a symbolic sequence S: the positions of its elements, in order (one unknown integer per element, as
        for enumerate)"""
        from .seq import SSeq
        if (isinstance(node, ast.Call) and isinstance(node.func, ast.Name) and node.func.id == 'range' and len(node.args) == 1
                and not node.keywords and isinstance(node.args[0], ast.Call) and isinstance(node.args[0].func, ast.Name)
                and node.args[0].func.id == 'len' and len(node.args[0].args) == 1 and env.lookup('range')[0] is False
                and env.lookup('len')[0] is False):
            s = self.ev(node.args[0].args[0], env)
            if isinstance(s, XList) and s.base is not None and not s.items:
                s = s.base
            if isinstance(s, SSeq):
                pairs = self.loops.seq_enumerate(self, s, 0)
                return pairs.with_stage('map', lambda pr: pr[0])
        return None

    def _st_For(self, st, env):
        it = self._range_len_of_sequence(st.iter, env)
        if it is None:
            it = self.ev(st.iter, env)
        if isinstance(it, SStr) and not it.is_concrete():
            return self.for_over_runs(st, it, env)
        from .seq import SSeq
        if self.recording is not None and isinstance(it, XList):
            self.read_lists.append(it)
        if isinstance(it, XList) and it.has_spread():
            if st.orelse:
                raise Unsupported('for/else over a symbolic list')
            for kind, seg in it.segments():
                if kind == 'pipe':
                    self.loops.for_over_seq(self, st, seg, env)
                else:
                    for x in seg:
                        self.assign(st.target, x, env)
                        try:
                            self.exec_block(st.body, env)
                        except _Break:
                            raise Unsupported('break inside a loop over a spliced symbolic list')
                        except _Continue:
                            continue
            return
        if isinstance(it, XList):
            if it.base is not None:
                if st.orelse:
                    raise Unsupported('for/else over a symbolic list')
                self.loops.for_over_seq(self, st, it.base, env)
            it = list(it.items)
        if isinstance(it, SSeq):
            return self.loops.for_over_seq(self, st, it, env)
        items = self.iterate(it)
        broke = False
        for n, x in enumerate(items):
            if n > self.MAX_UNROLL:
                raise Unsupported('loop unrolling limit')
            self.assign(st.target, x, env)
            try:
                self.exec_block(st.body, env)
            except _Break:
                broke = True
                break
            except _Continue:
                continue
        if not broke:
            self.exec_block(st.orelse, env)

    def for_over_runs(self, st, s: SStr, env):
        """for c in <run-length string>: a run (ch, n) repeats the body n times with the same character.  Supported body
        effect (checked, not assumed): at most one local string variable grows by a constant suffix of length <= 1 per
        iteration and nothing else changes (S-rl-loop); n iterations then append that suffix n times."""
        if st.orelse:
            raise Unsupported('for/else over symbolic string')
        for ch, n in s.units():
            if isinstance(n, int):
                for _ in range(n):
                    self.assign(st.target, ch, env)
                    self.exec_block(st.body, env)
                continue
            before = dict(env.vars)
            probe = {}
            for k, v in before.items():
                if isinstance(v, (str, SStr)):
                    probe[k] = v
            self.assign(st.target, ch, env)
            nw, nobl, npc = len(self.writes), len(self.obligations), len(self.pc)
            self.exec_block(st.body, env)
            if len(self.pc) != npc:
                raise Unsupported('symbolic branch inside a loop over a run-length string')
            tname = st.target.id if isinstance(st.target, ast.Name) else None
            for k, v in list(env.vars.items()):
                if k == tname:
                    continue
                if k not in before:
                    raise Unsupported('new local inside loop over run-length string')
                old = before[k]
                if v is old:
                    continue
                if isinstance(old, (str, SStr)) and isinstance(v, (str, SStr)):
                    op, vp = SStr.of(old).parts, SStr.of(v).parts
                    if vp[:len(op)] == op or (len(op) and op[-1][0] == 'lit' and len(vp) >= len(op)
                                               and vp[:len(op) - 1] == op[:len(op) - 1] and vp[len(op) - 1][0] == 'lit'
                                               and vp[len(op) - 1][1].startswith(op[-1][1])):
                        # suffix appended
                        oc, vc = SStr.of(old), SStr.of(v)
                        suffix = _suffix_after(oc, vc)
                        if suffix is None or len(suffix) > 1:
                            raise Unsupported('loop over run-length string: suffix longer than one character')
                        if suffix == '':
                            env.vars[k] = old
                        else:
                            env.vars[k] = str_concat(old, SStr([('run', suffix, nonneg(n))]))
                        continue
                raise Unsupported(f'loop over run-length string changes {k} in an unsupported way')
            if len(self.writes) != nw:
                raise Unsupported('heap write inside loop over run-length string')

    def st_While(self, st, env):
        if self._is_cut(st):
            raise CutReached(env)
        if self.havoc_loops and self.depth == 1:
            saved = dict(env.vars)
            try:
                return self._st_While(st, env)
            except (Unsupported, ShapeOutOfDate):      # (a loop that reads what the shape of the cut-point contract does not describe)
                env.vars.clear()
                env.vars.update(saved)
                return self.havoc_loop(st, env)
        return self._st_While(st, env)

    def _st_While(self, st, env):
        n = 0
        while True:
            c = self.truth(self.ev(st.test, env))
            if not isinstance(c, bool):
                c = simp(zbool(c))
            if not isinstance(c, bool):
                return self.loops.while_symbolic(self, st, env)
            if not c:
                break
            n += 1
            if n > self.MAX_UNROLL:
                raise Unsupported('while unrolling limit')
            try:
                self.exec_block(st.body, env)
            except _Break:
                return
            except _Continue:
                continue
        self.exec_block(st.orelse, env)

    def st_With(self, st, env):
        # context managers are external objects (open files): enter binds the object itself, exit is an event
        opened = []
        for item in st.items:
            v = self.ev(item.context_expr, env)
            if not isinstance(v, Opaque):
                raise Unsupported('with statement over a non-external object')
            if item.optional_vars is not None:
                self.assign(item.optional_vars, v, env)
            opened.append(v)
        try:
            self.exec_block(st.body, env)
        finally:
            for v in reversed(opened):
                self.events.append((v.tag, '__exit__', (), {}))

    # ------------------------------------------------------------------------------------------------ assignment
    def assign(self, target, v, env: Env):
        if isinstance(target, ast.Name):
            env.vars[target.id] = v
        elif isinstance(target, (ast.Tuple, ast.List)):
            items = self.iterate(v)
            if len(items) != len(target.elts):
                self.raise_py('ValueError')
            for t, x in zip(target.elts, items):
                self.assign(t, x, env)
        elif isinstance(target, ast.Attribute):
            obj = self.ev(target.value, env)
            self.set_attr(obj, self.mangle(target.attr, env), v)
        elif isinstance(target, ast.Subscript):
            obj = self.ev(target.value, env)
            key = self.ev(target.slice, env)
            self.set_item(obj, key, v)
        else:
            raise Unsupported(f'assignment target {type(target).__name__}')

    def note_write(self, obj, what):
        fresh = True
        if isinstance(obj, SObj):
            fresh = obj.fresh
        elif isinstance(obj, (list, dict, set)):
            fresh = id(obj) not in self.prestate_ids
        elif isinstance(obj, XList):
            fresh = not obj.prestate
        elif getattr(obj, 'prestate', False):
            fresh = False
        self.writes.append((self.cur_line, self.cur_func, what, fresh, obj))

    def set_attr(self, obj, attr, v):
        if isinstance(obj, SObj):
            setter = obj.cls.find_setter(attr)
            if setter is not None:
                self.call_function(setter, [obj, v], {})
                return
            self.note_write(obj, f'.{attr}')
            obj.fields[attr] = v
            return
        if isinstance(obj, ClassInfo):
            # class attributes are global state (e.g. the Node.NextID counter): a write is a frame event on the class
            self.writes.append((self.cur_line, self.cur_func, f'.{attr}', False, obj))
            self.const_cache[f'{obj.qualname}.{attr}'] = v
            return
        if getattr(obj, '_pyvc_native', False):
            setattr(obj, attr, v)
            return
        if isinstance(obj, Opaque):
            obj.attrs[attr] = v
            self.events.append((obj.tag, 'set:' + attr, (v,), {}))
            return
        raise Unsupported(f'attribute store on {type(obj).__name__}')

    def set_item(self, obj, key, v):
        if isinstance(obj, dict):
            if is_sym(key) or isinstance(key, (SStr, SEnum)):
                self.note_write(obj, '[key]=')        # the write itself is a frame event even though its effect is not modelled
                raise Unsupported('dict store with symbolic key')
            self.note_write(obj, '[key]=')
            obj[key] = v
            return
        if isinstance(obj, list):
            if is_sym(key):
                raise Unsupported('list store with symbolic index')
            self.note_write(obj, '[i]=')
            try:
                obj[key] = v
            except IndexError:
                self.raise_py('IndexError')
            return
        raise Unsupported(f'subscript store on {type(obj).__name__}')

    # ------------------------------------------------------------------------------------------------ expressions
    def ev(self, node, env: Env):
        m = getattr(self, 'ex_' + type(node).__name__, None)
        if m is None:
            raise Unsupported(f'expression {type(node).__name__} at line {getattr(node, "lineno", "?")}')
        return m(node, env)

    def ex_Constant(self, node, env):
        if isinstance(node.value, float):
            raise Unsupported('float')
        return node.value

    def ex_Name(self, node, env):
        return self.lookup_name(node.id, env)

    def ex_Tuple(self, node, env):
        return tuple(self.ev_elts(node.elts, env))

    def ex_List(self, node, env):
        return list(self.ev_elts(node.elts, env))

    def ev_elts(self, elts, env):
        out = []
        for e in elts:
            if isinstance(e, ast.Starred):
                out.extend(self.iterate(self.ev(e.value, env)))
            else:
                out.append(self.ev(e, env))
        return out

    def ex_Set(self, node, env):
        return self.make_set(self.ev_elts(node.elts, env))

    def ex_Dict(self, node, env):
        d = {}
        for k, v in zip(node.keys, node.values):
            if k is None:
                d.update(self.ev(v, env))
            else:
                kk = self.ev(k, env)
                if is_sym(kk) or isinstance(kk, (SStr, SEnum)):
                    raise Unsupported('dict literal with symbolic key')
                d[kk] = self.ev(v, env)
        return d

    def make_set(self, items):
        """A Python set when every element is concrete and hashable; an SSet when enum members are symbolic."""
        if all(not is_sym(x) and not isinstance(x, (SEnum, SStr, SObj)) for x in items):
            return set(items)
        enums = [x for x in items if isinstance(x, (EnumVal, SEnum))]
        if len(enums) == len(items) and enums:
            cls = enums[0].cls
            bits = {m: False for m in self.enum_members(cls)}
            for x in items:
                for m in bits:
                    c = (x is m) if isinstance(x, EnumVal) else simp(x.code == m.index)
                    bits[m] = _or(bits[m], c)
            return SSet(cls, bits)
        raise Unsupported('set with symbolic non-enum elements')

    def ex_JoinedStr(self, node, env):
        out = ''
        for v in node.values:
            if isinstance(v, ast.Constant):
                out = str_concat(out, v.value)
            else:
                if v.format_spec is not None:
                    raise Unsupported('format spec')
                x = self.ev(v.value, env)
                if v.conversion == 114:   # !r
                    raise Unsupported('!r conversion')
                out = str_concat(out, self.to_str(x))
        return out

    def to_str(self, x):
        if isinstance(x, (str, SStr)):
            return x
        if isinstance(x, bool):
            return str(x)
        if isinstance(x, int):
            return str(x)
        if x is None:
            return 'None'
        if is_int_sym(x):
            return SStr([('int', x)])
        if isinstance(x, ExcVal) or (isinstance(x, SObj) and 'Exception' in x.cls.base_name_closure() and x.cls.find_method('__str__') is None):
            # the message of an exception is not modelled (S-exc-msg): an unknown text
            self.exc_msgs = getattr(self, 'exc_msgs', 0) + 1
            return SStr([('sym', z3.String(f'exc.message.{self.exc_msgs}'))])
        if isinstance(x, (EnumVal, SEnum)):
            m = x.cls.find_method('__str__')
            if m is not None:
                return self.to_str(self.call_function(m, [x], {}))
            if isinstance(x, EnumVal):
                return f'{x.cls.name}.{x.name}'
            x = self.enum_split(x)
            return f'{x.cls.name}.{x.name}'
        if isinstance(x, SObj):
            m = x.cls.find_method('__str__')
            if m is not None:
                return self.to_str(self.call_function(m, [x], {}))
        raise Unsupported(f'str() of {type(x).__name__}')

    def ex_IfExp(self, node, env):
        if self.pointwise:
            t = self.truth(self.ev(node.test, env))
            if not isinstance(t, bool):
                t = simp(zbool(t))
            if not isinstance(t, bool):
                a, b = self.ev(node.body, env), self.ev(node.orelse, env)
                return a if a is b else self.ite_value(t, a, b)
            return self.ev(node.body if t else node.orelse, env)
        if self.is_true(self.ev(node.test, env)):
            return self.ev(node.body, env)
        return self.ev(node.orelse, env)

    def ex_BoolOp(self, node, env):
        is_and = isinstance(node.op, ast.And)
        v = None
        for i, e in enumerate(node.values):
            v = self.ev(e, env)
            if i == len(node.values) - 1:
                return v
            if self.pointwise:
                t = self.truth(v)
                if not isinstance(t, bool):
                    # per-element evaluation must not fork: the remaining operands are evaluated (they are pure) and
                    # combined as truth values
                    acc = t
                    for e2 in node.values[i + 1:]:
                        # (Python evaluates this operand only when the ones before it did not decide: that is its guard)
                        self.guards.append(acc if is_and else _not(acc))
                        try:
                            t2 = self.truth(self.ev(e2, env))
                        finally:
                            self.guards.pop()
                        acc = _and(acc, t2) if is_and else _or(acc, t2)
                    return acc
                if is_and and not t:
                    return v
                if not is_and and t:
                    return v
                continue
            t = self.is_true(v)
            if is_and and not t:
                return v
            if not is_and and t:
                return v
        return v

    def ex_UnaryOp(self, node, env):
        v = self.ev(node.operand, env)
        if isinstance(node.op, ast.Not):
            t = self.truth(v)
            return (not t) if isinstance(t, bool) else simp(z3.Not(t))
        if isinstance(node.op, ast.USub):
            if isinstance(v, int):
                return -v
            return simp(-zint(v))
        if isinstance(node.op, ast.UAdd):
            return v
        raise Unsupported('unary op')

    def ex_BinOp(self, node, env):
        return self.binop(node.op, self.ev(node.left, env), self.ev(node.right, env))

    def binop(self, op, a, b):
        if isinstance(op, ast.Add):
            if isinstance(a, (str, SStr)) and isinstance(b, (str, SStr)):
                return str_concat(a, b)
            if isinstance(a, list) and isinstance(b, list):
                return a + b
            if isinstance(a, tuple) and isinstance(b, tuple):
                return a + b
            if _intlike(a) and _intlike(b):
                if isinstance(a, int) and isinstance(b, int):
                    return a + b
                return simp(zint(a) + zint(b))
            from .seq import SSeq
            if isinstance(a, (XList, list, SSeq)) and isinstance(b, (XList, list, SSeq)) and (isinstance(a, XList) or isinstance(b, XList)
                                                                                             or isinstance(a, SSeq) or isinstance(b, SSeq)):
                # list concatenation with a symbolic part: a new list object made of the segments of both
                def segs(v):
                    if isinstance(v, XList):
                        return ([Spread(v.base)] if v.base is not None else []) + list(v.items)
                    if isinstance(v, SSeq):
                        return [Spread(v)]
                    return list(v)
                return XList(None, segs(a) + segs(b), False)
        elif isinstance(op, ast.Sub):
            if _intlike(a) and _intlike(b):
                if isinstance(a, int) and isinstance(b, int):
                    return a - b
                return simp(zint(a) - zint(b))
            if isinstance(a, (set, SSet)) and isinstance(b, (set, SSet)):
                return self.set_op('diff', a, b)
        elif isinstance(op, ast.Mult):
            if isinstance(a, list) and isinstance(b, int) and not isinstance(b, bool):
                return list(a) * b
            if isinstance(b, list) and isinstance(a, int) and not isinstance(a, bool):
                return list(b) * a
            if isinstance(a, (str, SStr)) and _intlike(b):
                return self.str_repeat(a, b)
            if isinstance(b, (str, SStr)) and _intlike(a):
                return self.str_repeat(b, a)
            if _intlike(a) and _intlike(b):
                if isinstance(a, int) and isinstance(b, int):
                    return a * b
                if is_sym(a) and is_sym(b):
                    raise Unsupported('non-linear multiplication')
                return simp(zint(a) * zint(b))
        elif isinstance(op, (ast.FloorDiv, ast.Mod)):
            if _intlike(a) and _intlike(b):
                if isinstance(a, int) and isinstance(b, int):
                    if b == 0:
                        self.raise_py('ZeroDivisionError')
                    return a // b if isinstance(op, ast.FloorDiv) else a % b
                if not isinstance(b, int) or b <= 0:
                    raise Unsupported('// or % by a non-positive or symbolic divisor (S-int)')
                # SMT-LIB div/mod with a positive divisor coincide with Python's floor semantics
                return simp(zint(a) / b) if isinstance(op, ast.FloorDiv) else simp(zint(a) % b)
        elif isinstance(op, ast.BitOr):
            if isinstance(a, (set, SSet)) and isinstance(b, (set, SSet)):
                return self.set_op('union', a, b)
        elif isinstance(op, ast.BitAnd):
            if isinstance(a, (set, SSet)) and isinstance(b, (set, SSet)):
                return self.set_op('inter', a, b)
        raise Unsupported(f'binary {type(op).__name__} on {type(a).__name__}, {type(b).__name__}')

    def str_repeat(self, s, n):
        if isinstance(s, str) and isinstance(n, int):
            return s * n
        if isinstance(s, str) and len(s) == 1:
            return SStr([('run', s, nonneg(n))])
        if isinstance(s, str) and len(s) == 0:
            return ''
        raise Unsupported('repetition of a non single-character string by a symbolic count')

    # -- sets -------------------------------------------------------------------------------------------------------
    def to_sset(self, s, cls=None) -> SSet:
        if isinstance(s, SSet):
            return s
        if isinstance(s, (set, frozenset, list, tuple)):
            members = list(s)
            if cls is None:
                if not members:
                    raise Unsupported('empty set with unknown element class')
                cls = members[0].cls
            bits = {m: False for m in self.enum_members(cls)}
            for x in members:
                if not isinstance(x, EnumVal) or x.cls is not cls:
                    raise Unsupported('mixed set')
                bits[x] = True
            return SSet(cls, bits)
        raise Unsupported('not a set')

    def set_op(self, op, a, b):
        if isinstance(a, (set, frozenset)) and isinstance(b, (set, frozenset)):
            return {'union': a | b, 'inter': a & b, 'diff': a - b}[op]
        cls = a.cls if isinstance(a, SSet) else b.cls
        A, B = self.to_sset(a, cls), self.to_sset(b, cls)
        bits = {}
        for m in A.bits:
            x, y = A.bits[m], B.bits[m]
            if op == 'union':
                bits[m] = _or(x, y)
            elif op == 'inter':
                bits[m] = _and(x, y)
            else:
                bits[m] = _and(x, _not(y))
        return SSet(cls, bits)

    # -- comparisons ------------------------------------------------------------------------------------------------
    def ex_Compare(self, node, env):
        left = self.ev(node.left, env)
        result = True
        for i, (op, rn) in enumerate(zip(node.ops, node.comparators)):
            right = self.ev(rn, env)
            r = self.compare(op, left, right)
            if len(node.ops) == 1:
                return r
            # chained comparison: short circuit
            if i < len(node.ops) - 1:
                if not self.is_true(r):
                    return r
            else:
                return r
            left = right
        return result

    def compare(self, op, a, b):
        if isinstance(op, ast.Is):
            return self.identical(a, b)
        if isinstance(op, ast.IsNot):
            return _not(self.identical(a, b))
        if isinstance(op, ast.Eq):
            return self.equals(a, b)
        if isinstance(op, ast.NotEq):
            if isinstance(a, SObj) and a.cls.find_method('__ne__') is not None:
                return self.truth(self.call_function(a.cls.find_method('__ne__'), [a, b], {}))
            return _not(self.equals(a, b))
        if isinstance(op, ast.In):
            return self.contains(b, a)
        if isinstance(op, ast.NotIn):
            return _not(self.contains(b, a))
        if isinstance(op, (ast.Lt, ast.LtE, ast.Gt, ast.GtE)):
            return self.order(op, a, b)
        raise Unsupported('comparison op')

    def identical(self, a, b):
        if a is None or b is None:
            return a is b
        if isinstance(a, SObj) and isinstance(b, SObj):
            return getattr(a, 'orig', a) is getattr(b, 'orig', b)
        if isinstance(a, (Opaque, ExtName)) or isinstance(b, (Opaque, ExtName)):
            return a is b
        if isinstance(a, (SObj, list, dict, set, EnumVal, ClassInfo, XList)) and isinstance(b, (SObj, list, dict, set, EnumVal, ClassInfo, XList)):
            return a is b
        if isinstance(a, SEnum) or isinstance(b, SEnum):
            return self.equals(a, b)
        if isinstance(a, bool) and isinstance(b, bool):
            return a is b
        from .values import SPredSet
        from .seq import SSeq
        if isinstance(a, (GList, SPredSet, SSet, SSeq, tuple)) or isinstance(b, (GList, SPredSet, SSet, SSeq, tuple)):
            return a is b
        if type(a).__name__ in ('SRangeIter', 'SRange', 'IterVal') or type(b).__name__ in ('SRangeIter', 'SRange', 'IterVal'):
            return a is b
        raise Unsupported('identity comparison')

    def equals(self, a, b):
        if a is None or b is None:
            if a is None and b is None:
                return True
            return False
        if isinstance(a, Opaque) or isinstance(b, Opaque):
            if a is b:
                return True
            # the value of an external result is unknown: an equality test on it is an unknown Bool (one per pair)
            o, other = (a, b) if isinstance(a, Opaque) else (b, a)
            key = ('eq', id(other) if not isinstance(other, (str, int, tuple)) else other)
            if key not in o.attrs:
                o.attrs[key] = self.fresh(f'eq({o.tag})', 'bool')
            return o.attrs[key]
        if isinstance(a, (EnumVal, SEnum)) or isinstance(b, (EnumVal, SEnum)):
            if not (isinstance(a, (EnumVal, SEnum)) and isinstance(b, (EnumVal, SEnum))):
                return False
            if a.cls.qualname != b.cls.qualname:
                return False
            if isinstance(a, EnumVal) and isinstance(b, EnumVal):
                return a is b
            return simp(zint(self.enum_code(a)) == zint(self.enum_code(b)))
        if isinstance(a, (str, SStr)) and isinstance(b, (str, SStr)):
            r = str_eq(a, b)
            return r if isinstance(r, bool) else simp(r)
        if isinstance(a, bool) and isinstance(b, bool):
            return a == b
        if (is_bool_sym(a) or isinstance(a, bool)) and (is_bool_sym(b) or isinstance(b, bool)):
            return simp(zbool(a) == zbool(b))
        if _intlike(a) and _intlike(b):
            if isinstance(a, int) and isinstance(b, int):
                return a == b
            return simp(zint(a) == zint(b))
        if isinstance(a, (set, frozenset, SSet)) and isinstance(b, (set, frozenset, SSet)):
            if isinstance(a, (set, frozenset)) and isinstance(b, (set, frozenset)):
                return a == b
            cls = a.cls if isinstance(a, SSet) else b.cls
            A, B = self.to_sset(a, cls), self.to_sset(b, cls)
            return simp(z3.And(*[zbool(_iff(A.bits[m], B.bits[m])) for m in A.bits]))
        if isinstance(a, (list, tuple)) and isinstance(b, (list, tuple)):
            if type(a) is not type(b):
                return False
            if len(a) != len(b):
                return False
            acc = True
            for x, y in zip(a, b):
                acc = _and(acc, self.equals(x, y))
            return acc
        if isinstance(a, dict) and isinstance(b, dict):
            if set(a.keys()) != set(b.keys()):
                return False
            acc = True
            for k in a:
                acc = _and(acc, self.equals(a[k], b[k]))
            return acc
        if isinstance(a, SObj):
            m = a.cls.find_method('__eq__')
            if m is not None:
                return self.truth(self.call_function(m, [a, b], {}))
            return a is b
        if isinstance(b, SObj):
            return self.equals(b, a)
        from .seq import SSeq
        if isinstance(a, XList) or isinstance(b, XList):
            return self.loops.xlist_equals(self, a, b)
        if isinstance(a, SSeq) or isinstance(b, SSeq):
            return self.loops.seq_equals(self, a, b)
        if type(a) is not type(b) and not is_sym(a) and not is_sym(b):
            if isinstance(a, (str, int, tuple, list, dict, set)) and isinstance(b, (str, int, tuple, list, dict, set)):
                return False
        if isinstance(a, (str, SStr)) != isinstance(b, (str, SStr)):
            return False
        if isinstance(a, (ClassInfo, BuiltinExcClass)) and isinstance(b, (ClassInfo, BuiltinExcClass)):
            return a is b or (isinstance(a, BuiltinExcClass) and isinstance(b, BuiltinExcClass) and a.name == b.name)   # classes compare by identity
        raise Unsupported(f'== on {type(a).__name__}, {type(b).__name__}')

    def order(self, op, a, b):
        if _intlike(a) and _intlike(b):
            if isinstance(a, int) and isinstance(b, int):
                return {ast.Lt: a < b, ast.LtE: a <= b, ast.Gt: a > b, ast.GtE: a >= b}[type(op)]
            x, y = zint(a), zint(b)
            return simp({ast.Lt: x < y, ast.LtE: x <= y, ast.Gt: x > y, ast.GtE: x >= y}[type(op)])
        if isinstance(a, str) and isinstance(b, str):
            return {ast.Lt: a < b, ast.LtE: a <= b, ast.Gt: a > b, ast.GtE: a >= b}[type(op)]
        if isinstance(a, (EnumVal, SEnum, SObj)):
            name = {ast.Lt: '__lt__', ast.LtE: '__le__', ast.Gt: '__gt__', ast.GtE: '__ge__'}[type(op)]
            m = a.cls.find_method(name)
            if m is not None:
                return self.truth(self.call_function(m, [a, b], {}))
        if isinstance(a, tuple) and isinstance(b, tuple) and len(a) == len(b) and isinstance(op, (ast.Lt, ast.Gt)):
            # lexicographic
            lt = isinstance(op, ast.Lt)
            acc = False
            for x, y in reversed(list(zip(a, b))):
                first = self.order(ast.Lt() if lt else ast.Gt(), x, y)
                acc = _or(first, _and(self.equals(x, y), acc))
            return acc
        if isinstance(a, (str, SStr)) and isinstance(b, (str, SStr)):
            return self.loops.str_order(self, op, a, b)
        raise Unsupported(f'ordering on {type(a).__name__}, {type(b).__name__}')

    def contains(self, container, x):
        from .values import SPredSet
        if self.recording is not None and isinstance(container, XList):
            self.read_lists.append(container)
        if isinstance(container, SPredSet):
            return container.fn(x)
        if isinstance(container, GList):
            acc = False
            for g, y in container.items:
                acc = _or(acc, _and(g, self.equals(x, y)))
            return acc
        if isinstance(container, SSet):
            if isinstance(x, EnumVal):
                return container.bits.get(x, False) if x.cls is container.cls else False
            if isinstance(x, SEnum):
                return simp(z3.Or(*[z3.And(x.code == m.index, zbool(b)) for m, b in container.bits.items() if b is not False]))
            return False
        if isinstance(container, (list, tuple, set, frozenset)):
            acc = False
            for y in container:
                acc = _or(acc, self.equals(x, y))
                if acc is True:
                    return True
            return acc
        if isinstance(container, dict):
            acc = False
            for y in container.keys():
                acc = _or(acc, self.equals(x, y))
                if acc is True:
                    return True
            return acc
        if isinstance(container, (str, SStr)) and isinstance(x, (str, SStr)):
            if isinstance(container, str) and isinstance(x, str):
                return x in container
            if isinstance(x, str) and len(x) == 1 and isinstance(container, SStr):
                acc = False
                for p in container.parts:
                    if p[0] == 'lit':
                        acc = _or(acc, x in p[1])
                    elif p[0] == 'run':
                        acc = _or(acc, simp(p[2] > 0) if p[1] == x else False)
                    elif p[0] == 'int':
                        if x in '-0123456789':
                            raise Unsupported('digit membership in str(int)')
                    else:
                        j = self.pipes.joins.get(p[1].get_id()) if is_sym(p[1]) else None
                        if j is not None:
                            # a character occurs in sep.join(P) iff it occurs in an element of P, or in the separator and P has
                            # at least two elements
                            pipe, sep, _ = j
                            from .loops import _pointwise
                            inside = self.pipes.observable(pipe.with_stage('filter', _pointwise(self, lambda v, x=x: self.contains(v, x))), 'ne')
                            between = simp(self.pipes.observable(pipe, 'len') >= 2) if x in sep else False
                            acc = _or(acc, _or(inside, between))
                        else:
                            acc = _or(acc, z3.Contains(p[1], z3.StringVal(x)))
                return acc
            return simp(z3.Contains(to_z3_string(container), to_z3_string(x)))
        from .seq import SSeq
        if isinstance(container, XList):
            acc = self.loops.seq_contains(self, container.base, x) if container.base is not None else False
            for y in container.items:
                acc = _or(acc, self.equals(x, y))
            return acc
        if isinstance(container, SSeq):
            return self.loops.seq_contains(self, container, x)
        raise Unsupported(f'membership in {type(container).__name__}')

    # -- attribute / subscript -------------------------------------------------------------------------------------
    def ex_Attribute(self, node, env):
        obj = self.ev(node.value, env)
        return self.get_attr(obj, self.mangle(node.attr, env), env)

    def get_attr(self, obj, attr, env=None):
        if isinstance(obj, SObj):
            if attr in obj.fields:
                return obj.fields[attr]
            if getattr(obj, 'cls_alt', None):
                # a method of an object whose class is one of several: supported when exactly one definition is found among the
                # alternatives; for every alternative that lacks it, reaching this call would be an AttributeError -- it must be
                # excluded by the conditions under which the call is evaluated (isinstance tests of the enclosing branches)
                found = [(c, g_, c.find_method(attr)) for c, g_ in obj.cls_alt]
                defs = {id(m.node): m for _, _, m in found if m is not None}
                if len(defs) == 1:
                    (m,) = defs.values()
                    if m.kind not in ('property', 'classmethod', 'staticmethod'):
                        for c, g_, mm in found:
                            if mm is None:
                                self.oblige_with(list(self.guards), 'safe', 'no-AttributeError', _not(g_),
                                                 note=f'{attr}() on an object that may be a {c.name}')
                        return BoundMethod(m, obj)
                raise Unsupported(f'attribute {attr} of an object whose class is symbolic (only its fields are known)')
            m = obj.cls.find_method(attr)
            if m is not None:
                if m.kind == 'property':
                    return self.call_function(m, [obj], {})
                if m.kind == 'classmethod':
                    return BoundMethod(m, obj.cls)
                if m.kind == 'staticmethod':
                    return m
                return BoundMethod(m, obj)
            if attr == '__class__':
                return obj.cls
            c, expr = obj.cls.find_class_assign(attr)
            if expr is not None:
                return self.class_attr(c, attr, expr)
            if obj.cls.module.name.startswith('contracts'):
                raise ShapeOutOfDate(f'the stub class {obj.cls.name} of a contract does not model attribute {attr!r}: the code uses the stubbed object in a new way')
            if not obj.fresh and self._set_by_constructor(obj.cls, attr):
                # an input object of a contract that does not have an attribute the (current) constructor sets.  When the
                # constructor initialises it with a constant (None, a number, a string, an empty container), the input object is
                # completed with that initial value (S-ctor-default: the state a new object has; what calls leave behind in such
                # an attribute is the subject of the two-call history lemmas).  Otherwise the contract's input shape is out of
                # date, not the code under verification
                init = self._ctor_constant(obj.cls, attr)
                if init is not None:
                    value = init()
                    obj.fields[attr] = value
                    self.inlined.add(f'(assumption) S-ctor-default: {obj.cls.name}.{attr} is unknown to the contract; taken from the constructor')
                    return value
                raise ShapeOutOfDate(f'the input shape of the contract lacks attribute {attr!r}, which {obj.cls.name}.__init__ sets')
            self.raise_py('AttributeError')
        if isinstance(obj, ClassInfo):
            if obj.is_enum:
                m = self.enum_by_name(obj, attr)
                if m is not None:
                    return m
                if attr == '__members__':
                    return {x.name: x for x in self.enum_members(obj)}
            f = obj.find_method(attr)
            if f is not None:
                if f.kind == 'classmethod':
                    return BoundMethod(f, obj)
                return f
            c, expr = obj.find_class_assign(attr)
            if expr is not None:
                return self.class_attr(c, attr, expr)
            if attr in obj.nested:
                return obj.nested[attr]
            if attr == '__name__':
                return obj.name
            if attr == '__new__':
                return NativeFn(lambda c, *a, **k: SObj(c, True), '__new__')
            self.raise_py('AttributeError')
        if isinstance(obj, BuiltinExcClass) and attr == '__name__':
            return obj.name
        if isinstance(obj, (EnumVal, SEnum)):
            if attr == 'value':
                return self.enum_value(obj)
            if attr in ('name', '_name_'):
                if isinstance(obj, SEnum):
                    obj = self.enum_split(obj)
                return obj.name
            f = obj.cls.find_method(attr)
            if f is not None:
                return BoundMethod(f, obj)
            if isinstance(obj, EnumVal):
                m = self.enum_by_name(obj.cls, attr)   # TokenCategory.SIGNATURES.DURATION style access
                if m is not None:
                    return m
            self.raise_py('AttributeError')
        if isinstance(obj, SuperProxy):
            f = obj.self_val.cls.find_method(attr, after=obj.cls) if isinstance(obj.self_val, SObj) else None
            if f is None and isinstance(obj.self_val, ClassInfo):
                f = obj.self_val.find_method(attr, after=obj.cls)
            if f is None:
                if attr == '__init__':
                    return NativeFn(lambda *a, **k: None, 'object.__init__')
                self.raise_py('AttributeError')
            return BoundMethod(f, obj.self_val)
        if isinstance(obj, ModuleInfo):
            r = obj.resolve_static(attr)
            if r is None:
                self.raise_py('AttributeError')
            return self.static_value(r, attr)
        if isinstance(obj, tuple) and obj and obj[0] == 'builtin':
            if obj[1] == 'set' and attr == 'union':
                return NativeFn(lambda *sets: self.set_union_many(sets), 'set.union')
            raise Unsupported(f'attribute {attr} of builtin {obj[1]}')
        if isinstance(obj, (str, SStr, list, dict, set, frozenset, tuple, SSet)):
            return BuiltinMethod(obj, attr)
        if isinstance(obj, Opaque):
            if attr not in obj.attrs:
                child = Opaque(f'{obj.tag}.{attr}')
                child.member_of = (obj, attr)       # calling it is a method call on obj
                obj.attrs[attr] = child
            return obj.attrs[attr]
        if isinstance(obj, ExtName):
            if attr.isupper():
                return ('extconst', f'{obj.qual}.{attr}')
            return self.external(f'{obj.qual}.{attr}')
        if isinstance(obj, ExcVal):
            if attr == 'args':
                return obj.args
        if getattr(obj, '_pyvc_native', False):
            v = getattr(obj, attr)
            if callable(v):
                return NativeFn(v, attr)
            return v
        if isinstance(obj, tuple) and obj and obj[0] == 'builtin':
            if obj[1] == 'set' and attr == 'union':
                return NativeFn(lambda *sets: self.set_union_many(sets), 'set.union')
        from .seq import SSeq
        if isinstance(obj, (SSeq, XList)):
            return BuiltinMethod(obj, attr)
        if obj is None:
            self.raise_py('AttributeError')
        raise Unsupported(f'attribute {attr} of {type(obj).__name__}')

    def class_attr(self, cls: ClassInfo, attr, expr):
        key = f'{cls.qualname}.{attr}'
        if key not in self.const_cache:
            env = Env(cls.module, cls, None)
            # class body namespace: earlier class-level names are visible
            for n in cls.class_assign_order:
                if n == attr:
                    break
                try:
                    env.vars[n] = self.class_attr(cls, n, cls.class_assigns[n])
                except Unsupported:
                    pass
            v = self.ev(expr, env)
            self.const_cache[key] = v
            self.mark_prestate(v)
        return self.const_cache[key]

    def enum_value(self, obj):
        if isinstance(obj, EnumVal):
            return obj.value
        ms = self.enum_members(obj.cls)
        if all(isinstance(m.value, int) for m in ms):
            if all(m.value == m.index + 1 for m in ms):
                return simp(obj.code + 1)
            e = z3.IntVal(ms[-1].value)
            for m in reversed(ms[:-1]):
                e = z3.If(obj.code == m.index, z3.IntVal(m.value), e)
            return e
        return self.enum_split(obj).value

    def ex_Subscript(self, node, env):
        obj = self.ev(node.value, env)
        if isinstance(node.slice, ast.Slice):
            lo = self.ev(node.slice.lower, env) if node.slice.lower is not None else None
            hi = self.ev(node.slice.upper, env) if node.slice.upper is not None else None
            if node.slice.step is not None:
                raise Unsupported('slice step')
            return self.get_slice(obj, lo, hi)
        key = self.ev(node.slice, env)
        return self.get_item(obj, key)

    def get_slice(self, obj, lo, hi):
        if isinstance(obj, (str, list, tuple)) and (lo is None or isinstance(lo, int)) and (hi is None or isinstance(hi, int)):
            return obj[lo:hi]
        if isinstance(obj, SStr) and obj.only_runs():
            return self.loops.rl_slice(self, obj, lo, hi)
        if type(obj).__name__ == 'PartialSplit':
            # the first pieces of a split text (the later ones are unknown): a slice that stays within the known pieces
            if (lo is None or (isinstance(lo, int) and lo >= 0)) and isinstance(hi, int) and not isinstance(hi, bool) and 0 <= hi <= len(obj.known):
                return list(obj.known[(lo or 0):hi])
            raise Unsupported('a slice of a split text beyond the part that is known')
        from .seq import SSeq
        if isinstance(obj, XList):
            if lo is None and isinstance(hi, int) and hi < 0 and len(obj.items) >= -hi:
                return XList(obj.base, obj.items[:hi], False)
            if lo is None and hi is None:
                return XList(obj.base, obj.items, False)
            raise Unsupported('slice of a symbolic list')
        if isinstance(obj, SSeq):
            return self.loops.seq_slice(self, obj, lo, hi)
        raise Unsupported('symbolic slice')

    def get_item(self, obj, key):
        if self.recording is not None and isinstance(obj, XList):
            self.read_lists.append(obj)
        if type(obj).__name__ == 'PartialSplit':
            if isinstance(key, int) and not isinstance(key, bool) and 0 <= key < len(obj.known):
                return obj.known[key]
            raise Unsupported('a piece of a split text beyond the part that is known')
        if isinstance(obj, dict):
            return self.dict_get(obj, key, None, True)
        if isinstance(obj, (list, tuple)):
            if isinstance(key, int) and not isinstance(key, bool):
                try:
                    return obj[key]
                except IndexError:
                    self.raise_py('IndexError')
            if is_int_sym(key):
                n = len(obj)
                if n and all(isinstance(v, int) and not isinstance(v, bool) for v in obj):
                    # integer table: in-range access is one path with an ite chain
                    if self.branch(simp(z3.And(key >= -n, key < n))):
                        e = z3.IntVal(obj[-1])
                        for i in range(n - 2, -1, -1):
                            e = z3.If(z3.Or(key == i, key == i - n), z3.IntVal(obj[i]), e)
                        return simp(e)
                    self.raise_py('IndexError')
                conds = [key == i for i in range(n)] + [z3.Or(key >= n, key < -n)] + [key == i - n for i in range(n)]
                k = self.fork(conds)
                if k == n:
                    self.raise_py('IndexError')
                return obj[k if k < n else k - n - 1]
            raise Unsupported('list index type')
        if isinstance(obj, str):
            if isinstance(key, int):
                try:
                    return obj[key]
                except IndexError:
                    self.raise_py('IndexError')
            raise Unsupported('symbolic index into concrete string')
        if isinstance(obj, SStr):
            if key == 0:
                return self.str_first(obj)
            if key == -1:
                return self.str_last(obj)
            raise Unsupported('index into symbolic string')
        from .seq import SSeq
        if isinstance(obj, XList):
            return self.loops.xlist_index(self, obj, key)
        if isinstance(obj, SSeq):
            return self.loops.seq_index(self, obj, key)
        if isinstance(obj, ClassInfo) and obj.is_enum and isinstance(key, str):
            m = self.enum_by_name(obj, key)
            if m is None:
                self.raise_py('KeyError')
            return m
        raise Unsupported(f'subscript of {type(obj).__name__}')

    def str_first(self, s: SStr):
        conds, chars = [], []
        zero = []
        for p in s.parts:
            if p[0] == 'lit':
                conds.append(z3.And(*zero) if zero else z3.BoolVal(True))
                chars.append(p[1][0])
                break
            elif p[0] == 'run':
                conds.append(z3.And(*(zero + [p[2] > 0])))
                chars.append(p[1])
                zero.append(p[2] <= 0)
            else:
                raise Unsupported('first character of opaque string')
        else:
            conds.append(z3.And(*zero) if zero else z3.BoolVal(True))
            chars.append(None)
        k = self.fork(conds)
        if chars[k] is None:
            self.raise_py('IndexError')
        return chars[k]

    def str_last(self, s: SStr):
        r = self.str_first(SStr(tuple(('lit', p[1][::-1]) if p[0] == 'lit' else p for p in reversed(s.parts))))
        return r

    def dict_get(self, d: dict, key, default, raise_missing: bool):
        if isinstance(key, SEnum) or isinstance(key, SStr) or is_sym(key):
            keys = list(d.keys())
            conds = [zbool(self.equals(key, k)) for k in keys]
            vals = [d[k] for k in keys]
            if keys and all(isinstance(v, int) and not isinstance(v, bool) for v in vals) and (raise_missing or isinstance(default, int)):
                # integer-valued literal map: the found case is one path with an ite chain (no fork per key)
                found = simp(z3.Or(*conds))
                if self.branch(found):
                    e = z3.IntVal(vals[-1])
                    for c, v in reversed(list(zip(conds[:-1], vals[:-1]))):
                        e = z3.If(c, z3.IntVal(v), e)
                    return simp(e)
                if raise_missing:
                    self.raise_py('KeyError')
                return default
            conds.append(z3.Not(z3.Or(*conds)) if conds else z3.BoolVal(True))
            k = self.fork([simp(c) for c in conds])
            if k == len(keys):
                if raise_missing:
                    self.raise_py('KeyError')
                return default
            return d[keys[k]]
        try:
            if key in d:
                return d[key]
        except TypeError:
            raise Unsupported('unhashable dict key')
        if raise_missing:
            self.raise_py('KeyError')
        return default

    # -- comprehensions --------------------------------------------------------------------------------------------
    def comp_items(self, node, env: Env):
        """Returns a list of (guard, value) for the element expression over all generator clauses."""
        out = []
        cenv = Env(env.module, env.cls, env.func, env)

        def rec(gi, guard):
            if gi == len(node.generators):
                elt = node.elt if not isinstance(node, ast.DictComp) else None
                if elt is not None:
                    out.append((guard, self.ev(elt, cenv)))
                else:
                    out.append((guard, (self.ev(node.key, cenv), self.ev(node.value, cenv))))
                return
            g = node.generators[gi]
            it = self.ev(g.iter, cenv)
            for ig, x in self.iterate_guarded(it):
                self.assign(g.target, x, cenv)
                gg = _and(guard, ig)
                skip = False
                for cond in g.ifs:
                    t = self.truth(self.ev(cond, cenv))
                    if t is False:
                        skip = True
                        break
                    gg = _and(gg, t)
                if skip or gg is False:
                    continue
                rec(gi + 1, gg)
        from .seq import SSeq
        if len(node.generators) == 1:
            it0 = self.ev(node.generators[0].iter, cenv)
            if isinstance(it0, XList) and not it0.items and it0.base is not None:
                it0 = it0.base          # a symbolic list without appended items is its base sequence
            if isinstance(it0, SSeq) or (isinstance(it0, SStr) and not it0.is_concrete()):
                return ('special', it0, cenv)
        rec(0, True)
        return out

    def iterate_guarded(self, it):
        if isinstance(it, SSet):
            items = [(b, m) for m, b in it.bits.items() if b is not False]
            if it.bad is not False and self.feasible(zbool(it.bad)):
                items.append((it.bad, BAD_ELEM))     # a member that is not of the enum class
            return items
        if isinstance(it, GList):
            return list(it.items)
        return [(True, x) for x in self.iterate(it)]

    def comp_over_segments(self, node, xl, env):
        """[elt for x in <list with symbolic parts> if conds]: part by part, a list with the same structure"""
        g = node.generators[0]
        out = []
        for kind, seg in xl.segments():
            cenv = Env(env.module, env.cls, env.func, env)
            if kind == 'pipe':
                out.append(Spread(self.loops.comprehension(self, node, seg, cenv, 'list')))
                continue
            for x in seg:
                self.assign(g.target, x, cenv)
                keep = True
                for cond in g.ifs:
                    t = self.truth(self.ev(cond, cenv))
                    if not isinstance(t, bool):
                        raise Unsupported('symbolic condition on a plain item of a list with symbolic parts')
                    keep = keep and t
                if keep:
                    out.append(self.ev(node.elt, cenv))
        return XList(None, out, False)

    def ex_ListComp(self, node, env):
        if len(node.generators) == 1 and not isinstance(node, ast.DictComp):
            it0 = self.ev(node.generators[0].iter, Env(env.module, env.cls, env.func, env))
            if isinstance(it0, XList) and (it0.has_spread() or (it0.base is not None and it0.items)):
                return self.comp_over_segments(node, it0, env)
        items = self.comp_items(node, env)
        if isinstance(items, tuple):
            return self.loops.comprehension(self, node, items[1], items[2], 'list')
        if all(g is True for g, _ in items):
            return [v for _, v in items]
        return GList(items)

    def ex_GeneratorExp(self, node, env):
        return self.ex_ListComp(node, env)

    def ex_SetComp(self, node, env):
        items = self.comp_items(node, env)
        if isinstance(items, tuple):
            raise Unsupported('set comprehension over a symbolic sequence')
        return self.set_from_guarded(items)

    def ex_DictComp(self, node, env):
        items = self.comp_items(node, env)
        if isinstance(items, tuple) or not all(g is True for g, _ in items):
            raise Unsupported('guarded dict comprehension')
        d = {}
        for _, (k, v) in items:
            if is_sym(k) or isinstance(k, (SStr, SEnum)):
                raise Unsupported('dict comprehension with symbolic key')
            d[k] = v
        return d

    def set_from_guarded(self, items, cls=None):
        if all(g is True for g, _ in items):
            return self.make_set([v for _, v in items])
        vals = [v for _, v in items]
        if not all(isinstance(v, (EnumVal, SEnum)) for v in vals):
            raise Unsupported('guarded set of non-enum values')
        cls = vals[0].cls
        bits = {m: False for m in self.enum_members(cls)}
        for g, v in items:
            for m in bits:
                c = (v is m) if isinstance(v, EnumVal) else simp(v.code == m.index)
                bits[m] = _or(bits[m], _and(g, c))
        return SSet(cls, bits)

    def set_union_many(self, sets):
        """set.union(*xs) where xs may be a guarded list of sets."""
        items = []
        for s in sets:
            if isinstance(s, GList):
                items.extend(s.items)
            else:
                items.append((True, s))
        if not items:
            raise PyRaise('TypeError', BUILTIN_EXCEPTIONS['TypeError'], self.cur_line, self.cur_func)
        if all(g is True and isinstance(s, (set, frozenset)) for g, s in items):
            return set().union(*[s for _, s in items])
        cls = None
        for _, s in items:
            if isinstance(s, SSet):
                cls = s.cls
            elif isinstance(s, (set, frozenset)) and s:
                cls = next(iter(s)).cls
            if cls is not None:
                break
        if cls is None:
            raise Unsupported('union of sets with unknown element class')
        bits = {m: False for m in self.enum_members(cls)}
        for g, s in items:
            S = self.to_sset(s, cls)
            for m in bits:
                bits[m] = _or(bits[m], _and(g, S.bits[m]))
        return SSet(cls, bits)

    def iterate(self, it) -> list:
        if isinstance(it, (list, tuple)):
            return list(it)
        if isinstance(it, range):
            return list(it)
        if isinstance(it, dict):
            return list(it.keys())
        if isinstance(it, (set, frozenset)):
            # deterministic order for reproducibility; consumers of set iteration must be order independent (S-set)
            return sorted(it, key=lambda x: (x.index if isinstance(x, EnumVal) else 0, repr(x)))
        if isinstance(it, str):
            return list(it)
        if isinstance(it, ClassInfo) and it.is_enum:
            return list(self.enum_members(it))
        if isinstance(it, GList):
            if all(g is True for g, _ in it.items):
                return [v for _, v in it.items]
            raise Unsupported('iteration over a guarded list')
        if isinstance(it, SStr):
            c = it.concrete()
            if c is not None:
                return list(c)
        if isinstance(it, XList) and it.base is None:
            return list(it.items)
        raise Unsupported(f'iteration over {type(it).__name__}')

    def ex_Lambda(self, node, env):
        return Closure(node, env, env.module, env.cls)

    def ex_Starred(self, node, env):
        raise Unsupported('starred expression')

    # ------------------------------------------------------------------------------------------------ calls
    def ex_Call(self, node, env):
        # super() needs the lexical class
        if isinstance(node.func, ast.Name) and node.func.id == 'super' and not node.args:
            found, slf = env.lookup('self')
            if not found:
                found, slf = env.lookup('cls')
            e = env
            while e is not None and e.cls is None:
                e = e.parent
            return SuperProxy(e.cls if e else env.cls, slf)
        f = self.ev(node.func, env)
        if isinstance(f, BuiltinExcClass):
            return ExcVal(f.name)
        args = []
        for a in node.args:
            if isinstance(a, ast.Starred):
                v = self.ev(a.value, env)
                if isinstance(v, GList):
                    args.append(v)      # only set.union(*glist) accepts this
                else:
                    args.extend(self.iterate(v))
            else:
                args.append(self.ev(a, env))
        kwargs = {}
        for k in node.keywords:
            if k.arg is None:
                d = self.ev(k.value, env)
                if not isinstance(d, dict):
                    raise Unsupported('** of non-dict')
                kwargs.update(d)
            else:
                kwargs[k.arg] = self.ev(k.value, env)
        line = self.cur_line
        r = self.call(f, args, kwargs, env)
        self.cur_line = line
        return r

    def call(self, f, args, kwargs, env=None):
        if isinstance(f, NativeFn):
            return f.fn(*args, **kwargs)
        if isinstance(f, FuncInfo):
            return self.call_function(f, args, kwargs)
        if isinstance(f, BoundMethod):
            return self.call_function(f.func, [f.self_val] + list(args), kwargs)
        if isinstance(f, Closure):
            return self.call_closure(f, args, kwargs)
        if isinstance(f, ClassInfo):
            return self.instantiate(f, args, kwargs)
        if isinstance(f, BuiltinMethod):
            from . import builtins_sym
            return builtins_sym.call_method(self, f.recv, f.name, args, kwargs)
        if isinstance(f, tuple) and f and f[0] == 'builtin':
            from . import builtins_sym
            return builtins_sym.call_builtin(self, f[1], args, kwargs, env)
        if isinstance(f, ExtName):
            short = f.qual.rsplit('.', 1)[-1]
            self.events.append(('ext', f.qual, tuple(args), dict(kwargs)))
            return Opaque(short, args)
        if isinstance(f, Opaque):
            owner, name = getattr(f, 'member_of', (f, '__call__'))
            if self.registry is not None:
                ci = self.registry.for_call(f'{owner.tag}.{name}')
                if ci is not None:
                    return self.registry.apply_external(self, ci, args, dict(kwargs, self=owner))
            self.events.append((owner.tag, name, tuple(args), dict(kwargs)))
            return Opaque(f'{owner.tag}.{name}()', (owner,))
        raise Unsupported(f'call of {type(f).__name__} {f!r}')

    def instantiate(self, cls: ClassInfo, args, kwargs):
        if cls.is_enum:
            # Enum lookup by value
            (v,) = args
            for m in self.enum_members(cls):
                if self.equals(m.value, v) is True:
                    return m
            self.raise_py('ValueError')
        if 'Exception' in cls.base_name_closure():
            o = SObj(cls, True)
            o.fields['args'] = tuple(args)
            init = cls.find_method('__init__')
            if init is not None:
                self.call_function(init, [o] + list(args), kwargs)
            return o
        for c in cls.mro():
            for m in c.methods.values():
                if m.abstract and cls.find_method(m.name) is m:
                    self.raise_py('TypeError')   # abstract class instantiation
        o = SObj(cls, True)
        init = cls.find_method('__init__')
        if init is not None:
            self.call_function(init, [o] + list(args), kwargs)
        elif args or kwargs:
            self.raise_py('TypeError')
        return o

    def bind_params(self, fnode, args, kwargs, env: Env, defaults_env: Env):
        a = fnode.args
        params = [p.arg for p in a.posonlyargs + a.args]
        if len(args) > len(params) and a.vararg is None:
            self._bad_call(env)
        for name, v in zip(params, args):
            env.vars[name] = v
        if a.vararg is not None:
            env.vars[a.vararg.arg] = tuple(args[len(params):])
        kw = dict(kwargs)
        defaults = a.defaults
        first_default = len(params) - len(defaults)
        for i, name in enumerate(params):
            if name in env.vars and i < len(args):
                if name in kw:
                    self._bad_call(env)
                continue
            if name in kw:
                env.vars[name] = kw.pop(name)
            elif i >= first_default:
                env.vars[name] = self.ev(defaults[i - first_default], defaults_env)
            else:
                self._bad_call(env)
        for p, d in zip(a.kwonlyargs, a.kw_defaults):
            if p.arg in kw:
                env.vars[p.arg] = kw.pop(p.arg)
            elif d is not None:
                env.vars[p.arg] = self.ev(d, defaults_env)
            else:
                self._bad_call(env)
        if a.kwarg is not None:
            env.vars[a.kwarg.arg] = kw
        elif kw:
            self._bad_call(env)

    def _bad_call(self, env):
        if env.module is not None and env.module.name.startswith('contracts') and env.cls is not None:
            raise ShapeOutOfDate(f'a method of the stub class {env.cls.name} is called with arguments the stub does not model')
        self.raise_py('TypeError')

    def call_function(self, f: FuncInfo, args, kwargs, force_inline=False):
        if f.kind == 'classmethod' and args and isinstance(args[0], SObj):
            args = [args[0].cls] + list(args[1:])
        # modular call: use the contract when there is one
        if self.registry is not None and self.modular and not force_inline:
            c = self.registry.for_call(f.qualname)
            if c is not None and f.qualname not in self.inline_set and not (self.depth == 0 and self.verifying == f.qualname):
                return self.registry.apply_contract(self, c, f, args, kwargs)
        if self.depth > 0 and not f.module.name.startswith('contracts') and f.qualname != self.verifying:
            self.inlined.add(f.qualname)
        env = Env(f.module, f.cls, f)
        self.bind_params(f.node, args, kwargs, env, Env(f.module, f.cls, f))
        return self.run_body(f.node.body, env, f)

    def call_closure(self, c: Closure, args, kwargs):
        if self.registry is not None and self.modular and c.name != '<lambda>' and c.env.func is not None:
            qual = f'{c.env.func.qualname}.<locals>.{c.name}'
            ci = self.registry.for_call(qual)
            if ci is not None:
                return self.registry.apply_closure_contract(self, ci, c, args, kwargs)
        env = Env(c.module, c.cls, c.env.func, c.env)
        if isinstance(c.node, ast.Lambda):
            self.bind_params(c.node, args, kwargs, env, c.env)
            return self.ev(c.node.body, env)
        self.bind_params(c.node, args, kwargs, env, c.env)
        return self.run_body(c.node.body, env, c.env.func)

    def run_body(self, body, env, f):
        self.depth += 1
        if self.depth > self.MAX_CALL_DEPTH:
            raise Unsupported('call depth limit (unbounded recursion without a contract?)')
        saved = (self.cur_func, self.cur_line)
        self.cur_func = f.qualname if f is not None else self.cur_func
        try:
            self.exec_block(body, env)
            return None
        except _Return as r:
            return r.value
        finally:
            self.depth -= 1
            self.cur_func, self.cur_line = saved

    def find_loop(self, f, text):
        for n in ast.walk(f.node):
            if isinstance(n, (ast.For, ast.While)) and ast.unparse(n).split('\n')[0].rstrip(':').strip().startswith(text):
                return n        # (the contract names the loop by the beginning of its header: kind, loop variables)
        raise Unsupported(f'loop {text!r} not found in {f.qualname}')

    def run_step(self, f, text, values):
        """One iteration of the loop `text` of function f from the state `values` (parameters and locals by name; for a `for` loop
        the loop variables are among them): returns (flow, value, env) with flow in next / break / return."""
        loop = self.find_loop(f, text)
        env = Env(f.module, f.cls, f)
        env.vars.update(values)
        self.depth += 1
        saved = (self.cur_func, self.cur_line)
        self.cur_func = f.qualname
        flow, value = 'next', None
        try:
            self.exec_block(loop.body, env)
        except _Continue:
            pass
        except _Break:
            flow = 'break'
        except _Return as r:
            flow, value = 'return', r.value
        finally:
            self.depth -= 1
            self.cur_func, self.cur_line = saved
        return flow, value, env

    def run_tail(self, f, text, values):
        """The statements of function f that follow the loop `text` (a statement at the top level of the function body or nested in
        `if` blocks only), run to the end of the function from the state `values` (parameters and locals by name): (value, env)."""
        loop = self.find_loop(f, text)
        from .source import continuation_after
        rest = continuation_after(f.node, loop)
        if rest is None:
            raise Unsupported(f'tail contract: the loop {text!r} is not at the top level of {f.qualname} (nor nested in if blocks only)')
        env = Env(f.module, f.cls, f)
        env.vars.update(values)
        self.depth += 1
        saved = (self.cur_func, self.cur_line)
        self.cur_func = f.qualname
        value = None
        try:
            self.exec_block(rest, env)
        except _Return as r:
            value = r.value
        finally:
            self.depth -= 1
            self.cur_func, self.cur_line = saved
        return value, env

    def _set_by_constructor(self, cls, attr):
        for c in cls.mro():
            init = c.methods.get('__init__')
            if init is None:
                continue
            for n in ast.walk(init.node):
                if isinstance(n, ast.Attribute) and isinstance(n.ctx, ast.Store) and n.attr == attr and isinstance(n.value, ast.Name) and n.value.id == 'self':
                    return True
        return False

    def _ctor_constant(self, cls, attr):
        """a builder of the constant `self.<attr> = <constant>` of the constructor (None when it is not a constant)"""
        for c in cls.mro():
            init = c.methods.get('__init__')
            if init is None:
                continue
            found = None
            for n in ast.walk(init.node):
                if isinstance(n, (ast.Assign, ast.AnnAssign)):
                    targets = n.targets if isinstance(n, ast.Assign) else [n.target]
                    for t in targets:
                        if isinstance(t, ast.Attribute) and t.attr == attr and isinstance(t.value, ast.Name) and t.value.id == 'self':
                            if found is not None:
                                return None         # assigned more than once: not a plain initial value
                            found = n.value
            if found is None:
                continue
            if isinstance(found, ast.Constant) and isinstance(found.value, (type(None), bool, int, str)):
                v = found.value
                return lambda: v
            if isinstance(found, ast.List) and not found.elts:
                return lambda: XList(None, [])
            if isinstance(found, ast.Dict) and not found.keys:
                return lambda: {}
            if isinstance(found, ast.Call) and isinstance(found.func, ast.Name) and found.func.id in ('dict', 'list', 'set') and not found.args and not found.keywords:
                k = found.func.id
                return lambda: {} if k == 'dict' else (set() if k == 'set' else XList(None, []))
            return None
        return None

    def builtin_open(self, args, kwargs):
        self.events.append(('ext', 'open', tuple(args), dict(kwargs)))
        o = Opaque('file', args)
        o.attrs['path'] = args[0] if args else kwargs.get('file')
        o.attrs['mode'] = args[1] if len(args) > 1 else kwargs.get('mode', 'r')
        return o

    def builtin_copy(self, v, deep):
        if isinstance(v, (int, str, bool, type(None), SStr, EnumVal, SEnum)) or is_sym(v):
            return v
        if isinstance(v, list):
            return [self.builtin_copy(x, deep) if deep else x for x in v]
        if isinstance(v, set):
            return set(v)
        if isinstance(v, SSet):
            return v.copy()
        if isinstance(v, dict):
            return {k: (self.builtin_copy(x, deep) if deep else x) for k, x in v.items()}
        if isinstance(v, tuple):
            return tuple(self.builtin_copy(x, deep) if deep else x for x in v)
        if isinstance(v, XList) and not deep:
            return XList(v.base, v.items, False)
        if isinstance(v, SObj) and not deep:
            o = SObj(v.cls, True)
            o.fields = dict(v.fields)
            return o
        raise Unsupported(f'copy of {type(v).__name__}')


def _native_data(v):
    if isinstance(v, (str, int, bool, type(None))):
        return v
    if isinstance(v, dict):
        return {k: _native_data(x) for k, x in v.items()}
    if isinstance(v, list):
        return [_native_data(x) for x in v]
    if isinstance(v, tuple):
        return tuple(_native_data(x) for x in v)
    raise Unsupported(f'native data of type {type(v).__name__}')


def _load(target):
    import copy as _c
    t = _c.copy(target)
    t.ctx = ast.Load()
    return t


def _intlike(v):
    return (isinstance(v, int) and not isinstance(v, bool)) or is_int_sym(v) or isinstance(v, bool)


def _and(a, b):
    if a is True:
        return b
    if b is True:
        return a
    if a is False or b is False:
        return False
    return simp(z3.And(zbool(a), zbool(b)))


def _or(a, b):
    if a is False:
        return b
    if b is False:
        return a
    if a is True or b is True:
        return True
    return simp(z3.Or(zbool(a), zbool(b)))


def _not(a):
    if isinstance(a, bool):
        return not a
    return simp(z3.Not(zbool(a)))


def _iff(a, b):
    if isinstance(a, bool) and isinstance(b, bool):
        return a == b
    return simp(zbool(a) == zbool(b))


def _suffix_after(old: SStr, new: SStr):
    """If new == old ++ <concrete suffix> return the suffix, else None."""
    op, vp = list(old.parts), list(new.parts)
    i = 0
    while i < len(op) and i < len(vp) and op[i] == vp[i]:
        i += 1
    if i == len(op):
        rest = vp[i:]
        if all(p[0] == 'lit' for p in rest):
            return ''.join(p[1] for p in rest)
        return None
    if i == len(op) - 1 and op[i][0] == 'lit' and i < len(vp) and vp[i][0] == 'lit' and vp[i][1].startswith(op[i][1]):
        rest = vp[i + 1:]
        if all(p[0] == 'lit' for p in rest):
            return vp[i][1][len(op[i][1]):] + ''.join(p[1] for p in rest)
    return None
