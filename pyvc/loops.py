"""Rules for loops and comprehensions over values of unknown size (run-length strings, symbolic sequences)."""
from __future__ import annotations

import ast
import z3

from .values import Unsupported, SStr, nonneg, str_concat


def comprehension(I, node, it, cenv, kind):
    """[elt for c in <run-length string> if cond(c)]: evaluated per run with the concrete character; the result is the
    character list of a run-length string (only ever consumed by ''.join)."""
    if isinstance(it, SStr):
        g = node.generators[0]
        parts = []
        for ch, n in it.units():
            I.assign(g.target, ch, cenv)
            keep = True
            for cond in g.ifs:
                t = I.truth(I.ev(cond, cenv))
                if not isinstance(t, bool):
                    raise Unsupported('comprehension condition over a run-length string is not decided by the character')
                if not t:
                    keep = False
                    break
            if not keep:
                continue
            e = I.ev(node.elt, cenv)
            if not isinstance(e, str) or len(e) > 1:
                raise Unsupported('comprehension element over a run-length string must be a character')
            if e:
                parts.append(('run', e, nonneg(n)) if not isinstance(n, int) else ('lit', e * n))
        r = SStr(parts)
        c = r.concrete()
        return c if c is not None else r
    from .seq import SSeq
    if isinstance(it, SSeq):
        return seq_comprehension(I, node, it, cenv)
    raise Unsupported('comprehension over a symbolic sequence')


def _pointwise(I, fn):
    def run(v):
        I.pointwise += 1
        try:
            return fn(v)
        finally:
            I.pointwise -= 1
    return run


def seq_comprehension(I, node, pipe, cenv):
    """[elt for x in <pipe> if conds]  ->  the pipe with more filter / map stages (evaluated per canonical element)."""
    from .interp import Env
    g = node.generators[0]
    if isinstance(node, ast.DictComp):
        raise Unsupported('dict comprehension over a symbolic sequence')
    snapshot = dict(cenv.vars)

    def env_for(v):
        e = Env(cenv.module, cenv.cls, cenv.func, cenv.parent)
        e.vars.update(snapshot)
        I.assign(g.target, v, e)
        return e
    out = pipe
    for cond in g.ifs:
        out = out.with_stage('filter', _pointwise(I, lambda v, cond=cond: I.truth(I.ev(cond, env_for(v)))))
    identity = isinstance(node.elt, ast.Name) and isinstance(g.target, ast.Name) and node.elt.id == g.target.id
    if not identity:
        out = out.with_stage('map', _pointwise(I, lambda v: I.ev(node.elt, env_for(v))))
    if out is pipe:
        out = pipe.with_stage('filter', lambda v: True)
    return out


def _unsup(name):
    def f(*a, **k):
        raise Unsupported(name)
    return f


while_symbolic = _unsup('while with symbolic condition (needs an invariant)')
seq_concat = _unsup('sequence concatenation')
seq_slice = _unsup('sequence slice')
def seq_reversed(I, pipe):
    """reversed(S): the same elements in the opposite order (a stage of the pipe's shape)"""
    return pipe.with_stage('reverse', None)


seq_method = _unsup('sequence method')
sym_range = _unsup('range with symbolic bound')
rl_slice = _unsup('slice of run-length string')


def seq_sum(I, pipe, start):
    """sum over a symbolic sequence whose elements are all the same integer constant: constant * length"""
    from .interp import zint, simp
    pred, keys, v = pipe.eval_at('i')
    if isinstance(v, bool) or not isinstance(v, int):
        raise Unsupported('sum over a symbolic sequence of non-constant values')
    n = I.pipes.observable(pipe, 'len')
    total = simp(zint(n) * v) if v != 1 else n
    return total if start == 0 else simp(zint(total) + zint(start))


def seq_enumerate(I, pipe, start):
    """enumerate(S): pairs (position, element); the position of an element is an unknown integer attached to the element (the same
    element has the same position wherever the pair is evaluated), not smaller than `start`"""
    from .interp import zint

    def pair(v):
        key = getattr(v, '_enum_pos', None) if hasattr(v, '__dict__') else None
        if key is None:
            seq_enumerate.n += 1
            key = z3.Int(f'enum.pos.{seq_enumerate.n}')
            try:
                v._enum_pos = key
            except Exception:
                pass
        return (key, v)
    return pipe.with_stage('map', pair)


seq_enumerate.n = 0


def sorted_(I, args, kwargs):
    xs = args[0]
    key = kwargs.get('key')
    reverse = kwargs.get('reverse', False)
    from .seq import SSeq
    if isinstance(xs, SSeq):
        if reverse:
            raise Unsupported('sorted(reverse=True) over a symbolic sequence')
        if key is None:
            return xs.with_stage('sort', lambda v: v)
        return xs.with_stage('sort', _pointwise(I, lambda v: I.call(key, [v], {})))
    items = I.iterate(xs)
    keys = [I.call(key, [x], {}) if key is not None else x for x in items]

    def conc(k):
        if isinstance(k, (int, str)):
            return k
        if isinstance(k, tuple):
            return tuple(conc(x) for x in k)
        from .values import EnumVal
        if isinstance(k, EnumVal) and k.cls.find_method('__lt__') is not None:
            return k.value
        raise Unsupported('sorted with a symbolic key (use the sort rule)')
    ck = [conc(k) for k in keys]
    order = sorted(range(len(items)), key=lambda i: ck[i], reverse=bool(reverse))
    return [items[i] for i in order]


def filter_(I, fn, xs):
    """filter(pred, <run-length string>): the predicate is decided by the (concrete) character of each run."""
    from .seq import SSeq
    if isinstance(xs, SSeq):
        return xs.with_stage('filter', _pointwise(I, lambda v: I.truth(I.call(fn, [v], {}))))
    if isinstance(xs, SStr):
        parts = []
        for p in xs.parts:
            if p[0] == 'lit':
                keep = ''
                for ch in p[1]:
                    t = I.truth(I.call(fn, [ch], {}))
                    if not isinstance(t, bool):
                        raise Unsupported('filter predicate not decided by the character')
                    if t:
                        keep += ch
                parts.append(('lit', keep))
            elif p[0] == 'run':
                t = I.truth(I.call(fn, [p[1]], {}))
                if not isinstance(t, bool):
                    raise Unsupported('filter predicate not decided by the character')
                if t:
                    parts.append(p)
            else:
                raise Unsupported('filter over str(int) / opaque string')
        r = SStr(parts)
        c = r.concrete()
        return c if c is not None else r
    raise Unsupported('filter over a symbolic sequence')


def str_replace(I, S, old, new):
    """replace(old, new) with a multi-character literal `old` on a template string: exact when `old` can only occur inside
    literal parts (no run character belongs to `old`, and no occurrence can span two literals separated by runs that
    may be empty)."""
    if not (isinstance(old, str) and isinstance(new, str) and len(old) >= 1):
        raise Unsupported('replace with symbolic pattern')
    if any(p[0] == 'sym' for p in S.parts) and all(p[0] in ('sym', 'lit') for p in S.parts):
        # opaque text: SMT-LIB str.replace_all (equalities between such terms are decided syntactically / by the seq solver)
        from .values import to_z3_string
        zs = to_z3_string(S)
        a, b = z3.StringVal(old), z3.StringVal(new)
        return SStr([('sym', z3.SeqRef(z3.Z3_mk_seq_replace_all(zs.ctx_ref(), zs.as_ast(), a.as_ast(), b.as_ast()), zs.ctx))])
    lits = []
    for p in S.parts:
        if p[0] == 'run':
            if p[1] in old:
                raise Unsupported('replace: pattern shares a character with a run')
        elif p[0] == 'int':
            if any(c in '-0123456789' for c in old):
                raise Unsupported('replace: pattern may occur in str(int)')
        elif p[0] == 'sym':
            raise Unsupported('replace on opaque string')
    # occurrences spanning consecutive literals (when the runs between them are empty)
    prev = None
    for p in S.parts:
        if p[0] == 'lit':
            if prev is not None:
                joined = prev + p[1]
                for k in range(max(0, len(prev) - len(old) + 1), len(prev)):
                    if joined[k:k + len(old)] == old:
                        raise Unsupported('replace: an occurrence could span two literal parts')
            prev = p[1]
        elif p[0] == 'int':
            prev = None
    parts = [('lit', p[1].replace(old, new)) if p[0] == 'lit' else p for p in S.parts]
    r = SStr(parts)
    c = r.concrete()
    return c if c is not None else r


def seq_join(I, sep, pipe):
    if not isinstance(sep, str):
        raise Unsupported('join with a symbolic separator')
    return SStr([('sym', I.pipes.observable(pipe, 'join', sep))])


def seq_equals(I, a, b):
    """Two pipes are equal when they are unified (pointwise-equivalent stages, proved); otherwise the answer is an opaque
    Bool (the proof obligation that needs it then fails and the witness search takes over)."""
    from .seq import SSeq
    if isinstance(a, SSeq) and isinstance(b, SSeq):
        if a.src is b.src and I.pipes.canon_id(a) == I.pipes.canon_id(b):
            return True
        return z3.Bool(f'seq-eq({a.src.name}~{I.pipes.canon_id(a)},{b.src.name}~{I.pipes.canon_id(b)})')
    if isinstance(a, SSeq) and isinstance(b, (list, tuple)) and len(b) == 0:
        from .interp import _not
        return _not(I.pipes.observable(a, 'ne'))
    if isinstance(b, SSeq):
        return seq_equals(I, b, a)
    if isinstance(a, SSeq) and isinstance(b, (list, tuple)):
        # a sequence of unknown length against a concrete non-empty list: not decided by the rules -- an opaque Bool, as for two
        # pipes that are not unified (an obligation that needs it fails and the witness search takes over)
        seq_equals.n += 1
        return z3.Bool(f'seq-eq-list({a.src.name}~{I.pipes.canon_id(a)},#{seq_equals.n})')
    raise Unsupported('equality between a symbolic sequence and a value that is not a list')


seq_equals.n = 0


def str_order(I, op, a, b):
    """code-point (lexicographic) order of strings: SMT-LIB str.< / str.<="""
    from .values import to_z3_string
    from .interp import simp
    x, y = to_z3_string(a), to_z3_string(b)
    if isinstance(op, ast.Lt):
        return simp(x < y)
    if isinstance(op, ast.LtE):
        return simp(x <= y)
    if isinstance(op, ast.Gt):
        return simp(y < x)
    return simp(y <= x)


# ----------------------------------------------------------------------------------------------------- loops over pipes
def _assigned_names(stmts):
    out = set()
    for st in stmts:
        for n in ast.walk(st):
            if isinstance(n, (ast.Assign, ast.AugAssign, ast.AnnAssign)):
                targets = n.targets if isinstance(n, ast.Assign) else [n.target]
                for t in targets:
                    for m in ast.walk(t):
                        if isinstance(m, ast.Name):
                            out.add(m.id)
            elif isinstance(n, (ast.For, ast.While, ast.With, ast.Return, ast.Break, ast.Continue, ast.Raise)):
                # (try / except is followed: an exception under a symbolic condition inside the per-element evaluation leaves the subset)
                raise Unsupported(f'{type(n).__name__} inside a loop over a symbolic sequence')
    return out


def _append_pattern(st):
    """for x in S: [if c: ]* L.append(e)   ->  (list name, [conds], elt)   (the filter/map loop)"""
    body = st.body
    conds = []
    while len(body) == 1 and isinstance(body[0], ast.If) and not body[0].orelse:
        conds.append(body[0].test)
        body = body[0].body
    # comments / docstrings do not appear in ast bodies; allow a single append call
    if len(body) == 1 and isinstance(body[0], ast.Expr) and isinstance(body[0].value, ast.Call):
        c = body[0].value
        if (isinstance(c.func, ast.Attribute) and c.func.attr == 'append' and isinstance(c.func.value, ast.Name)
                and len(c.args) == 1 and not c.keywords):
            return c.func.value.id, conds, c.args[0]
    return None


def _mutated_elsewhere(env, lname, loop):
    """does the enclosing function call a mutating list method on the local `lname` outside `loop`?"""
    fnode = getattr(getattr(env, 'func', None), 'node', None)
    if fnode is None:
        return False
    inside = {id(n) for n in ast.walk(loop)}
    for n in ast.walk(fnode):
        if id(n) in inside:
            continue
        if (isinstance(n, ast.Call) and isinstance(n.func, ast.Attribute) and isinstance(n.func.value, ast.Name) and n.func.value.id == lname
                and n.func.attr in ('append', 'extend', 'insert', 'pop', 'remove', 'sort', 'reverse', 'clear')):
            return True
    return False


def for_over_seq(I, st, pipe, env):
    from .interp import Env, zbool, simp, _and
    from .seq import SSeq
    if st.orelse:
        raise Unsupported('for/else over a symbolic sequence')
    pat = _append_pattern(st)
    if pat is not None:
        lname, conds, elt = pat
        found, cur = env.lookup(lname)
        if found and isinstance(cur, list) and len(cur) == 0 and id(cur) not in I.prestate_ids:
            # L == [] before the loop: after it L is the comprehension [elt for x in S if conds]
            comp = ast.ListComp(elt=elt, generators=[ast.comprehension(target=st.target, iter=st.iter, ifs=list(conds), is_async=0)])
            cenv = Env(env.module, env.cls, env.func, env)
            built = seq_comprehension(I, comp, pipe, cenv)
            if isinstance(built, SSeq) and _mutated_elsewhere(env, lname, st):
                # the list goes on being filled after the loop: a mutable list whose first part is the comprehension
                from .values import XList
                built = XList(built, [], False)
            env.vars[lname] = built
            return
    if _search_pattern(st) is not None:
        return search_loop(I, st, pipe, env)
    return fold_loop(I, st, pipe, env)


def _search_pattern(st):
    """for x in S: if cond(x): return <value not depending on x>"""
    if len(st.body) == 1 and isinstance(st.body[0], ast.If) and not st.body[0].orelse:
        inner = st.body[0].body
        if (len(inner) == 2 and isinstance(inner[1], ast.Break) and isinstance(inner[0], ast.Assign) and len(inner[0].targets) == 1
                and isinstance(inner[0].targets[0], ast.Name) and isinstance(inner[0].value, ast.Constant) and not st.orelse):
            # for x in S: if cond(x): flag = <constant>; break        (a search that sets a flag)
            return st.body[0].test, inner[0]
        if len(inner) == 1 and isinstance(inner[0], ast.Raise):
            # for x in S: if cond(x): raise E(...x...)      (a validation loop)
            return st.body[0].test, inner[0]
        if len(inner) == 1 and isinstance(inner[0], ast.Return):
            tnames = {n.id for n in ast.walk(st.target) if isinstance(n, ast.Name)}
            val = inner[0].value
            if val is None or not any(isinstance(n, ast.Name) and n.id in tnames for n in ast.walk(val)):
                return st.body[0].test, val
    return None


def search_loop(I, st, pipe, env):
    """Search loop: the function returns from inside the loop iff some element satisfies the condition (the first one that does;
    the returned value does not depend on it)."""
    from .interp import Env, _Return
    test, val = _search_pattern(st)
    snapshot = dict(env.vars)

    def cond(v):
        e = Env(env.module, env.cls, env.func, env.parent)
        e.vars.update(snapshot)
        I.assign(st.target, v, e)
        return I.truth(I.ev(test, e))
    hits = pipe.with_stage('filter', _pointwise(I, cond))
    if I.branch(I.pipes.observable(hits, 'ne')):
        if isinstance(val, ast.Assign):
            I.exec_stmt(val, env)           # the flag is set iff some element satisfies the condition
            return
        if isinstance(val, ast.Raise):
            # some element satisfies the condition: the statement is executed for a witness (an arbitrary such element)
            pred, keys, w = hits.eval_at('w')
            I.assume(pred)
            I.assign(st.target, w, env)
            I.exec_stmt(val, env)
            raise Unsupported('raise statement in a validation loop returned')
        raise _Return(I.ev(val, env) if val is not None else None)


def fold_loop(I, st, pipe, env):
    """General accumulate loop: the body is executed once for an arbitrary element with the accumulators havocked
    (branches are merged with ite, no heap writes); the loop result is the observable FOLD(pipe, init, step), shared by
    all loops proved to have the same source order, initial values and step function."""
    from .interp import Env, zbool, simp, _and
    names = sorted(_assigned_names(st.body))
    tnames = {n.id for n in ast.walk(st.target) if isinstance(n, ast.Name)}
    accs = [n for n in names if n not in tnames]
    init = {}
    loads = {m.id for b in st.body for m in ast.walk(b) if isinstance(m, ast.Name) and isinstance(m.ctx, ast.Load)}
    unknown_after = []
    for n in list(accs):
        found, v = env.lookup(n)
        if found and type(v).__name__ == 'Havoc':
            found = False       # (left unknown by an earlier loop: any read before the body assigns it leaves the subset)
        if not found:
            # a temporary of the body (assigned before it is read in every iteration, or the read fails as an unbound local in the
            # per-element evaluation): not an accumulator; after the loop its value is unknown
            accs.remove(n)
            unknown_after.append(n)
            continue
        if n not in loads and not isinstance(v, (str, SStr, bool, int, z3.BoolRef, z3.ArithRef)):
            # written but never read by the body ('the last one seen'): does not influence the iterations; unknown after the loop
            accs.remove(n)
            unknown_after.append(n)
            continue
        init[n] = v
    # accumulator symbols
    acc_syms = {}
    for pos, n in enumerate(accs):
        v = init[n]
        # accumulators are named by position so that two loops with differently named locals can be unified
        if isinstance(v, (str, SStr)):
            acc_syms[n] = SStr([('sym', z3.String(f'acc.{pos}.s'))])
        elif isinstance(v, bool) or isinstance(v, z3.BoolRef):
            acc_syms[n] = z3.Bool(f'acc.{pos}.b')
        elif isinstance(v, int) or isinstance(v, z3.ArithRef):
            acc_syms[n] = z3.Int(f'acc.{pos}.i')
        else:
            raise Unsupported(f'accumulator {n} of type {type(v).__name__} in a loop over a symbolic sequence')
    # local lists the body appends to (`L.append(..)` on a name bound to a list created in this function and not reachable from
    # anything else in scope) become symbolic lists, so that the appends of all iterations can be spliced in
    from .values import XList, SObj
    for b in st.body:
        for c in ast.walk(b):
            cands = []
            if isinstance(c, ast.Call) and isinstance(c.func, ast.Attribute) and c.func.attr == 'append' and isinstance(c.func.value, ast.Name):
                cands.append(c.func.value.id)
            elif isinstance(c, ast.Call):
                # a list handed to a callee that may append to it (by its contract's model)
                cands += [a.id for a in c.args if isinstance(a, ast.Name)] + [k.value.id for k in c.keywords if isinstance(k.value, ast.Name)]
            if (isinstance(c, ast.Call) and isinstance(c.func, ast.Attribute) and c.func.attr == 'append' and isinstance(c.func.value, ast.Attribute)
                    and isinstance(c.func.value.value, ast.Name)):
                # `obj.field.append(..)`: a list that this function created and stored in a field (held by that field only)
                found, holder = env.lookup(c.func.value.value.id)
                fname = I.mangle(c.func.value.attr, env) if hasattr(I, 'mangle') else c.func.value.attr
                cur = holder.fields.get(fname) if found and isinstance(holder, SObj) else None
                if isinstance(cur, list) and id(cur) not in I.prestate_ids:
                    refs = 0
                    e = env
                    seen_objs = set()
                    while e is not None:
                        for k, v in e.vars.items():
                            if v is cur:
                                refs += 1
                            elif isinstance(v, SObj) and id(v) not in seen_objs:
                                seen_objs.add(id(v))
                                refs += sum(2 for x in v.fields.values() if x is cur)
                        e = e.parent
                    if refs != 2:
                        raise Unsupported('a list appended to inside a loop over a symbolic sequence is aliased')
                    holder.fields[fname] = XList(None, list(cur), False)
            for cname in cands:
                found, cur = env.lookup(cname)
                if found and isinstance(cur, list) and id(cur) not in I.prestate_ids:
                    others = 0
                    e = env
                    while e is not None:
                        for k, v in e.vars.items():
                            if v is cur:
                                others += 1
                            elif isinstance(v, SObj) and any(x is cur for x in v.fields.values()):
                                others += 2
                        e = e.parent
                    if others != 1:
                        raise Unsupported('a list appended to inside a loop over a symbolic sequence is aliased')
                    e = env
                    while e is not None:
                        if cname in e.vars:
                            e.vars[cname] = XList(None, list(cur), False)
                            break
                        e = e.parent

    def run_body(val):
        """the body for one element with the accumulators unknown: (environment afterwards, recorded appends)"""
        benv = Env(env.module, env.cls, env.func, env)
        for n in accs:
            benv.vars[n] = acc_syms[n]
        I.assign(st.target, val, benv)
        nw = len(I.writes)
        saved_rec, I.recording = I.recording, []
        saved_reads, I.read_lists = I.read_lists, []
        I.pointwise += 1
        I.merge_ifs += 1
        try:
            I.exec_block(st.body, benv)
            recs = I.recording
            reads = I.read_lists
        finally:
            I.pointwise -= 1
            I.merge_ifs -= 1
            I.recording = saved_rec
            I.read_lists = saved_reads
        if any(r[0] is x for r in recs for x in reads):
            # the body reads a list it also appends to: what it reads depends on the earlier iterations (not a per-element effect)
            raise Unsupported('a loop over a symbolic sequence reads a list it appends to')
        if any(not w[3] for w in I.writes[nw:]):
            raise Unsupported('heap write inside a loop over a symbolic sequence')
        return benv, recs
    pred, keys, val = pipe.eval_at('i')
    benv, recs = run_body(val)
    step = {n: benv.vars[n] for n in accs}
    if accs:
        results = I.pipes.fold(pipe, accs, init, acc_syms, step, pred)
        for n in accs:
            env.vars[n] = results[n]
    from .interp import Havoc
    for n in unknown_after:
        env.vars[n] = Havoc(n)
    # effect loop: every iteration appends one value to a list (possibly through a call): the list is extended by the sequence of
    # those values; they must not depend on the accumulators
    from .values import Spread
    for k, (xl, v, guard) in enumerate(recs):
        if _mentions(v, 'acc.') or _mentions(guard, 'acc.'):
            raise Unsupported('value appended inside a loop depends on a loop accumulator')
        I.note_write(xl, 'list.append')
        out = pipe
        if guard is not True:
            out = out.with_stage('filter', (lambda e, k=k: run_body(e)[1][k][2]))
        if not (v is val):
            out = out.with_stage('map', (lambda e, k=k: run_body(e)[1][k][1]))
        if out is pipe and pipe.stage is not None:
            out = pipe.with_stage('filter', lambda e: True)
        xl.items.append(Spread(out))


def _mentions(v, prefix, depth=0):
    """does the value contain a solver constant whose name starts with prefix?"""
    from .values import SObj
    if depth > 4:
        return False
    if isinstance(v, z3.ExprRef):
        return any(str(c).startswith(prefix) for c in _consts(v))
    if isinstance(v, SStr):
        return any(_mentions(p[1], prefix, depth + 1) for p in v.parts if len(p) > 1) or any(_mentions(p[2], prefix, depth + 1) for p in v.parts if len(p) > 2)
    if isinstance(v, SObj):
        return any(_mentions(x, prefix, depth + 1) for x in v.fields.values())
    if isinstance(v, (list, tuple)):
        return any(_mentions(x, prefix, depth + 1) for x in v)
    if hasattr(v, 'v') and isinstance(getattr(v, 'v'), z3.ExprRef):
        return _mentions(v.v, prefix, depth + 1)
    return False


def _consts(e):
    seen, out, todo = set(), [], [e]
    while todo:
        x = todo.pop()
        if x.get_id() in seen:
            continue
        seen.add(x.get_id())
        if z3.is_const(x) and x.decl().kind() == z3.Z3_OP_UNINTERPRETED:
            out.append(x)
        todo.extend(x.children())
    return out


# ----------------------------------------------------------------------------------------------------- indexing, membership
def seq_index(I, pipe, key):
    """pipe[key] for a base sequence: IndexError outside [-len, len); the element at a symbolic index is the source element
    at that index (fields are functions of the index, so equal indices give equal fields)."""
    from .interp import zint, simp
    if not pipe.is_base():
        raise Unsupported('index into a filtered / sorted sequence')
    n = I.pipes.observable(pipe, 'len')
    k = zint(key)
    which = I.fork([simp(z3.And(k >= 0, k < n)), simp(z3.And(k < 0, k >= -n)), simp(z3.Or(k >= n, k < -n))])
    if which == 2:
        I.raise_py('IndexError')
    idx = simp(k) if which == 0 else simp(n + k)
    return elem_at(I, pipe.src, idx)


def elem_at(I, src, idx):
    from .interp import zint, simp, zbool
    idx_t = zint(idx)
    key = '@' + idx_t.sexpr()
    if key in src._elems:
        return src._elems[key]
    # an index that is provably one already used denotes the same element (object identity)
    for k2, (t2, e2) in getattr(src, '_indexed', {}).items():
        s = z3.Solver()
        s.set('timeout', 1000)
        for c in I.pc:
            s.add(c)
        s.add(idx_t != t2)
        if s.check() == z3.unsat:
            src._elems[key] = e2
            return e2
    for k2, (t2, e2) in getattr(src, '_indexed', {}).items():
        s = z3.Solver()
        s.set('timeout', 1000)
        for c in I.pc:
            s.add(c)
        s.add(idx_t == t2)
        if s.check() != z3.unsat:
            raise Unsupported('two symbolic indices into one sequence that may or may not coincide')
    e = src.elem_builder(key, idx_t)
    src._elems[key] = e
    if not hasattr(src, '_indexed'):
        src._indexed = {}
    if src.inv is not None:
        I.assume(I.truth(src.inv(e)))
    if src.pair_inv is not None:
        for k2, (t2, e2) in src._indexed.items():
            I.assume(z3.Implies(idx_t < t2, zbool(I.truth(src.pair_inv(e, e2)))))
            I.assume(z3.Implies(t2 < idx_t, zbool(I.truth(src.pair_inv(e2, e)))))
    src._indexed[key] = (idx_t, e)
    return e


def seq_contains(I, pipe, x):
    """x in pipe: an uninterpreted predicate of the value x per canonical pipe (two membership tests on the same sequence with
    equal values agree)"""
    from .values import to_z3_string
    from .interp import zint
    cid = I.pipes.canon_id(pipe)
    if isinstance(x, (str, SStr)):
        F = z3.Function(f'in({pipe.src.name}~{cid})', z3.StringSort(), z3.BoolSort())
        return F(to_z3_string(x))
    if isinstance(x, int) or isinstance(x, z3.ArithRef):
        F = z3.Function(f'in({pipe.src.name}~{cid})', z3.IntSort(), z3.BoolSort())
        return F(zint(x))
    from .values import SObj
    if isinstance(x, SObj):
        # an object: `e == x` for some element e, with the class's own __eq__ (evaluated per element) or identity
        def same(e):
            if e is x:
                return True
            if isinstance(e, SObj) and e.cls.find_method('__eq__') is not None:
                return I.truth(I.equals(e, x))
            return False
        return I.pipes.observable(pipe.with_stage('filter', _pointwise(I, same)), 'ne')
    raise Unsupported('membership of a non-scalar in a symbolic sequence')


def xlist_index(I, xl, key):
    from .interp import zint, simp
    if isinstance(key, int) and key < 0 and len(xl.items) >= -key:
        return xl.items[key]
    if xl.base is None:
        if isinstance(key, int):
            try:
                return xl.items[key]
            except IndexError:
                I.raise_py('IndexError')
        return I.get_item(list(xl.items), key)
    n = I.pipes.observable(xl.base, 'len')
    k = zint(key)
    m = len(xl.items)
    conds = [simp(z3.And(k >= 0, k < n))] + [simp(k == n + j) for j in range(m)] + [simp(k == j - m) for j in range(m)] \
        + [simp(z3.Or(k >= n + m, k < -m))]
    which = I.fork(conds)
    if which == 0:
        return elem_at(I, xl.base.src, simp(k))
    if which <= m:
        return xl.items[which - 1]
    if which <= 2 * m:
        return xl.items[which - 1 - m]
    # beyond the appended items on either side: a negative index into the base part or out of range
    if I.branch(simp(z3.And(k < -m, k >= -(n + m)))):
        return elem_at(I, xl.base.src, simp(n + m + k))
    I.raise_py('IndexError')


def xlist_equals(I, a, b):
    """equality of two lists with symbolic parts: segment by segment (a symbolic sequence against a symbolic sequence, proved
    equal by unification; runs of plain items against runs of the same length); other alignments are not decided"""
    from .values import XList
    from .interp import _and
    from .seq import SSeq

    def segs(v):
        if isinstance(v, XList):
            return v.segments()
        if isinstance(v, (list, tuple)):
            return [('items', list(v))] if len(v) else []
        if isinstance(v, SSeq):
            return [('pipe', v)]
        return None
    sa, sb = segs(a), segs(b)
    if sa is None or sb is None:
        return False
    pa = [s for s in sa if s[0] == 'pipe']
    pb = [s for s in sb if s[0] == 'pipe']
    if not pa and not pb:
        xa = [x for _, seg in sa for x in seg]
        xb = [x for _, seg in sb for x in seg]
        if len(xa) != len(xb):
            return False
        sa, sb = ([('items', xa)] if xa else []), ([('items', xb)] if xb else [])
    if [k for k, _ in sa] != [k for k, _ in sb]:
        if len(pa) == len(pb) and all(x[1] is y[1] for x, y in zip(pa, pb)):
            return False        # the same symbolic parts with different numbers of plain items around them: the lengths differ
        raise Unsupported('comparison of symbolic lists whose parts do not line up')
    acc = True
    for (k, x), (_, y) in zip(sa, sb):
        if k == 'pipe':
            if x is not y:
                acc = _and(acc, seq_equals(I, x, y))
        else:
            if len(x) != len(y):
                if all(p[1] is q[1] for p, q in zip(pa, pb)):
                    return False
                raise Unsupported('comparison of symbolic lists with different numbers of plain items')
            for u, v in zip(x, y):
                acc = _and(acc, I.truth(I.equals(u, v)) if not (hasattr(u, 'fields') and hasattr(v, 'fields')) else I.identical(u, v))
    return acc


def str_startswith(I, S, p):
    """s.startswith(prefix or tuple of prefixes) on opaque text: SMT-LIB str.prefixof"""
    from .values import to_z3_string
    from .interp import simp
    ps = list(p) if isinstance(p, tuple) else [p]
    if not all(isinstance(x, (str, SStr)) for x in ps):
        raise Unsupported('startswith with a non-string prefix')
    zs = to_z3_string(S)
    return simp(z3.Or(*[z3.PrefixOf(to_z3_string(x), zs) for x in ps])) if ps else False


def str_endswith(I, S, p):
    from .values import to_z3_string
    from .interp import simp
    ps = list(p) if isinstance(p, tuple) else [p]
    if not all(isinstance(x, (str, SStr)) for x in ps):
        raise Unsupported('endswith with a non-string suffix')
    zs = to_z3_string(S)
    return simp(z3.Or(*[z3.SuffixOf(to_z3_string(x), zs) for x in ps])) if ps else False
