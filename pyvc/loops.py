"""Rules for loops and comprehensions over values of unknown size (run-length strings, symbolic sequences)."""
from __future__ import annotations

import ast
import z3

from .values import Unsupported, SStr, nonneg, str_concat


def comprehension(I, node, it, cenv, kind):
    """[elt for c in <run-length string> if cond(c)]: evaluated per run with the concrete character; the result is the
    character list of a run-length string (only ever consumed by ''.join)."""
    if isinstance(it, SStr):
        g = node.generators[0]
        parts = []
        for ch, n in it.units():
            I.assign(g.target, ch, cenv)
            keep = True
            for cond in g.ifs:
                t = I.truth(I.ev(cond, cenv))
                if not isinstance(t, bool):
                    raise Unsupported('comprehension condition over a run-length string is not decided by the character')
                if not t:
                    keep = False
                    break
            if not keep:
                continue
            e = I.ev(node.elt, cenv)
            if not isinstance(e, str) or len(e) > 1:
                raise Unsupported('comprehension element over a run-length string must be a character')
            if e:
                parts.append(('run', e, nonneg(n)) if not isinstance(n, int) else ('lit', e * n))
        r = SStr(parts)
        c = r.concrete()
        return c if c is not None else r
    raise Unsupported('comprehension over a symbolic sequence')


def _unsup(name):
    def f(*a, **k):
        raise Unsupported(name)
    return f


for_over_seq = _unsup('for over symbolic sequence')
while_symbolic = _unsup('while with symbolic condition (needs an invariant)')
seq_concat = _unsup('sequence concatenation')
seq_equals = _unsup('sequence equality')
seq_contains = _unsup('sequence membership')
seq_slice = _unsup('sequence slice')
seq_index = _unsup('sequence index')
seq_sum = _unsup('sum over sequence')
seq_enumerate = _unsup('enumerate over sequence')
seq_reversed = _unsup('reversed sequence')
seq_method = _unsup('sequence method')
seq_join = _unsup('join over sequence')
sym_range = _unsup('range with symbolic bound')
rl_slice = _unsup('slice of run-length string')
str_startswith = _unsup('startswith on symbolic string')
str_endswith = _unsup('endswith on symbolic string')
str_order = _unsup('ordering of symbolic strings')


def sorted_(I, args, kwargs):
    xs = args[0]
    key = kwargs.get('key')
    reverse = kwargs.get('reverse', False)
    from .seq import SSeq
    if isinstance(xs, SSeq):
        raise Unsupported('sorted over a symbolic sequence')
    items = I.iterate(xs)
    keys = [I.call(key, [x], {}) if key is not None else x for x in items]

    def conc(k):
        if isinstance(k, (int, str)):
            return k
        if isinstance(k, tuple):
            return tuple(conc(x) for x in k)
        from .values import EnumVal
        if isinstance(k, EnumVal) and k.cls.find_method('__lt__') is not None:
            return k.value
        raise Unsupported('sorted with a symbolic key (use the sort rule)')
    ck = [conc(k) for k in keys]
    order = sorted(range(len(items)), key=lambda i: ck[i], reverse=bool(reverse))
    return [items[i] for i in order]


def filter_(I, fn, xs):
    """filter(pred, <run-length string>): the predicate is decided by the (concrete) character of each run."""
    if isinstance(xs, SStr):
        parts = []
        for p in xs.parts:
            if p[0] == 'lit':
                keep = ''
                for ch in p[1]:
                    t = I.truth(I.call(fn, [ch], {}))
                    if not isinstance(t, bool):
                        raise Unsupported('filter predicate not decided by the character')
                    if t:
                        keep += ch
                parts.append(('lit', keep))
            elif p[0] == 'run':
                t = I.truth(I.call(fn, [p[1]], {}))
                if not isinstance(t, bool):
                    raise Unsupported('filter predicate not decided by the character')
                if t:
                    parts.append(p)
            else:
                raise Unsupported('filter over str(int) / opaque string')
        r = SStr(parts)
        c = r.concrete()
        return c if c is not None else r
    raise Unsupported('filter over a symbolic sequence')


def str_replace(I, S, old, new):
    """replace(old, new) with a multi-character literal `old` on a template string: exact when `old` can only occur inside
    literal parts (no run character belongs to `old`, and no occurrence can span two literals separated by runs that
    may be empty)."""
    if not (isinstance(old, str) and isinstance(new, str) and len(old) >= 1):
        raise Unsupported('replace with symbolic pattern')
    lits = []
    for p in S.parts:
        if p[0] == 'run':
            if p[1] in old:
                raise Unsupported('replace: pattern shares a character with a run')
        elif p[0] == 'int':
            if any(c in '-0123456789' for c in old):
                raise Unsupported('replace: pattern may occur in str(int)')
        elif p[0] == 'sym':
            raise Unsupported('replace on opaque string')
    # occurrences spanning consecutive literals (when the runs between them are empty)
    prev = None
    for p in S.parts:
        if p[0] == 'lit':
            if prev is not None:
                joined = prev + p[1]
                for k in range(max(0, len(prev) - len(old) + 1), len(prev)):
                    if joined[k:k + len(old)] == old:
                        raise Unsupported('replace: an occurrence could span two literal parts')
            prev = p[1]
        elif p[0] == 'int':
            prev = None
    parts = [('lit', p[1].replace(old, new)) if p[0] == 'lit' else p for p in S.parts]
    r = SStr(parts)
    c = r.concrete()
    return c if c is not None else r
