"""SMT back ends.  Every obligation becomes one SMT-LIB2 file; solvers are always child processes with an OS kill
timer (an in-process z3 call on a sequence query ran away for 20 minutes during design probing)."""
from __future__ import annotations

import hashlib
import os
import re
import subprocess
import time
from concurrent.futures import ThreadPoolExecutor
from typing import Dict, List, Optional

import z3

Z3 = os.environ.get('PYVC_Z3', 'z3-new')
CVC5 = os.environ.get('PYVC_CVC5', '/usr/bin/cvc5')


class Query:
    def __init__(self, qid, text, expect, input_names):
        self.qid, self.text, self.expect, self.input_names = qid, text, expect, input_names
        self.hash = hashlib.sha256(text.encode()).hexdigest()[:20]
        self.verdict = None       # 'unsat' | 'sat' | 'unknown'
        self.backend = None
        self.time_s = 0.0
        self.model: Dict[str, object] = {}
        self.raw = ''
        self.path = None
        self.by_backend: Dict[str, str] = {}


def make_query(qid, pc, goal, expect='unsat', input_names=()):
    """expect='unsat': validity of pc => goal (we check pc /\\ not goal).  expect='sat': satisfiability of pc /\\ goal (cover)."""
    s = z3.Solver()
    for c in pc:
        s.add(c)
    s.add(z3.Not(goal) if expect == 'unsat' else goal)
    text = s.to_smt2()
    return Query(qid, text, expect, list(input_names))


def _run(cmd, timeout_s):
    t0 = time.time()
    try:
        p = subprocess.run(cmd, capture_output=True, text=True, timeout=timeout_s)
        out = p.stdout + ('\n' + p.stderr if p.stderr else '')
    except subprocess.TimeoutExpired as e:
        out = 'timeout\n' + ((e.stdout or b'').decode() if isinstance(e.stdout, bytes) else (e.stdout or ''))
    return out, time.time() - t0


def _first_verdict(out):
    for line in out.splitlines():
        line = line.strip()
        if line in ('sat', 'unsat', 'unknown', 'timeout'):
            return 'unknown' if line == 'timeout' else line
    return 'unknown'


_DEF = re.compile(r'\(define-fun\s+(\|[^|]*\||[^\s()]+)\s+\(\)\s+(\w+)\s+(.*?)\)\s*(?=\(define-fun|\)\s*$|$)', re.S)


def parse_model(out) -> Dict[str, object]:
    model = {}
    i = out.find('(define-fun')
    if i < 0:
        return model
    text = out[i:]
    for m in re.finditer(r'\(define-fun\s+(\|[^|]*\||[^\s()]+)\s+\(\)\s+(\w+)\s+', text):
        name, sort = m.group(1).strip('|'), m.group(2)
        rest = text[m.end():]
        # value is a balanced s-expression or an atom
        val, _ = _read_sexpr(rest)
        model[name] = _convert(val, sort)
    return model


def _read_sexpr(s):
    s = s.lstrip()
    if s.startswith('"'):
        j = 1
        while True:
            k = s.find('"', j)
            if k + 1 < len(s) and s[k + 1] == '"':
                j = k + 2
                continue
            return s[:k + 1], s[k + 1:]
    if s.startswith('('):
        depth, j = 0, 0
        while True:
            if s[j] == '(':
                depth += 1
            elif s[j] == ')':
                depth -= 1
                if depth == 0:
                    return s[:j + 1], s[j + 1:]
            j += 1
    m = re.match(r'[^\s()]+', s)
    return m.group(0), s[m.end():]


def _convert(val, sort):
    val = val.strip()
    if sort == 'Int':
        m = re.match(r'\(\s*-\s*(\d+)\s*\)', val)
        if m:
            return -int(m.group(1))
        try:
            return int(val)
        except ValueError:
            return val
    if sort == 'Bool':
        return val == 'true'
    if sort == 'String':
        body = val[1:-1].replace('""', '"')
        body = re.sub(r'\\u\{([0-9a-fA-F]+)\}', lambda m: chr(int(m.group(1), 16)), body)
        return body
    return val


def solve(q: Query, outdir: str, timeout_s: float = 10.0, both: bool = False) -> Query:
    os.makedirs(outdir, exist_ok=True)
    q.path = os.path.join(outdir, f'{q.hash}.smt2')
    with open(q.path, 'w') as f:
        f.write(f'; obligation {q.qid}  expect {q.expect}\n')
        f.write(q.text)
        f.write('\n(get-model)\n')
    out, dt = _run([Z3, f'-T:{int(timeout_s)}', q.path], timeout_s + 5)
    v = _first_verdict(out)
    q.by_backend['z3'] = v
    q.time_s += dt
    q.raw = out[:4000]
    if v in ('sat', 'unsat'):
        q.verdict, q.backend = v, 'z3'
        if v == 'sat':
            q.model = parse_model(out)
    if v == 'unknown' or both:
        cpath = q.path[:-5] + '.cvc5.smt2'
        with open(cpath, 'w') as f:
            f.write('(set-logic ALL)\n(set-option :produce-models true)\n')
            f.write(q.text)
            f.write('\n(get-model)\n')
        out2, dt2 = _run([CVC5, f'--tlimit={int(timeout_s * 1000)}', '--strings-exp', cpath], timeout_s + 5)
        v2 = _first_verdict(out2)
        q.by_backend['cvc5'] = v2
        q.time_s += dt2
        if q.verdict is None and v2 in ('sat', 'unsat'):
            q.verdict, q.backend = v2, 'cvc5'
            q.raw = out2[:4000]
            if v2 == 'sat':
                q.model = parse_model(out2)
    if q.verdict is None:
        q.verdict = 'unknown'
    return q


def retry_file(path: str, timeout_s: float):
    """second opinion for a query both back ends left open while all cores were busy: the stored file again, alone, with a longer
    budget; returns (verdict, backend, model, by_backend)"""
    by = {}
    out, _ = _run([Z3, f'-T:{int(timeout_s)}', path], timeout_s + 5)
    v = _first_verdict(out)
    by['z3'] = v
    if v in ('sat', 'unsat'):
        return v, 'z3', (parse_model(out) if v == 'sat' else {}), by
    cpath = path[:-5] + '.cvc5.smt2'
    if not os.path.exists(cpath):
        with open(cpath, 'w') as f:
            f.write('(set-logic ALL)\n(set-option :produce-models true)\n')
            f.write(''.join(l for l in open(path) if not l.startswith(';')))
    out2, _ = _run([CVC5, f'--tlimit={int(timeout_s * 1000)}', '--strings-exp', cpath], timeout_s + 5)
    v2 = _first_verdict(out2)
    by['cvc5'] = v2
    if v2 in ('sat', 'unsat'):
        return v2, 'cvc5', (parse_model(out2) if v2 == 'sat' else {}), by
    return 'unknown', None, {}, by


def solve_all(queries: List[Query], outdir: str, timeout_s: float = 10.0, both: bool = False, jobs: int = 2) -> List[Query]:
    uniq: Dict[str, Query] = {}
    for q in queries:
        uniq.setdefault(q.hash, q)
    with ThreadPoolExecutor(max_workers=jobs) as ex:
        list(ex.map(lambda q: solve(q, outdir, timeout_s, both), uniq.values()))
    for q in queries:
        u = uniq[q.hash]
        if u is not q:
            q.verdict, q.backend, q.time_s, q.model, q.raw, q.path, q.by_backend = \
                u.verdict, u.backend, 0.0, u.model, u.raw, u.path, u.by_backend
    return queries
