"""./check selftest [ids...]: the machinery against known property-breaking changes, on scratch copies (never in /repo).

Mutants: (1) the revert of every `fix:` commit listed in known_findings.jsonl, (2) every seeded change under seeded/<id>/patch.diff,
(3) a few hand-written one-liners.  Each is applied to a scratch copy of /repo's working tree (outside /repo and /verif, removed
afterwards); the check of the property must exit 1.  An engine that passes a mutant is unsound for that class of change."""
import glob
import json
import os
import shutil
import subprocess
import sys
import tempfile

VERIF = os.path.dirname(os.path.dirname(os.path.abspath(__file__)))
REPO = '/repo'

HAND = [
    ('hand-C09-sign', 'C09', 'kernpy/core/pitch_models.py', 'delta = raw_interval if direction == Direction.UP.value else - raw_interval',
     'delta = raw_interval if direction != Direction.UP.value else - raw_interval'),
    ('hand-C11-closure', 'C11', 'kernpy/core/tokens.py', 'return included_nodes - excluded_nodes', 'return included_nodes & excluded_nodes'),
    ('hand-C16-octave', 'C16', 'kernpy/core/pitch_models.py', 'octave = min_octave + (len(encoding) - 1)', 'octave = min_octave + len(encoding)'),
    ('hand-C05-gate', 'C05', 'kernpy/core/exporter.py', "and (options.spine_ids is None or header_type.spine_id in options.spine_ids)",
     "or (options.spine_ids is None or header_type.spine_id in options.spine_ids)"),
    ('hand-C07-validator', 'C07', 'kernpy/core/exporter.py', 'if options.to_measure is not None and options.to_measure > len(document.measure_start_tree_stages):',
     'if options.to_measure is not None and options.to_measure > len(document.measure_start_tree_stages) + 1:'),
    ('hand-C02-children', 'C02', 'kernpy/core/document.py', '        parent.children.append(node)', '        parent.children.insert(0, node)'),
    ('hand-C17-dfs', 'C17', 'kernpy/core/document.py', 'stack.extend(reversed(node.children))', 'stack.extend(node.children)'),
    ('hand-C10-clef', 'C10', 'kernpy/core/gkern.py', "return AgnosticPitch('G', 2)", "return AgnosticPitch('A', 2)"),
    ('hand-C18-own', 'C18', 'kernpy/core/fing_spine_importer.py', 'return SimpleToken(encoding, TokenCategory.FINGERING)\n\n        ACCEPTED',
     'return SimpleToken(encoding, TokenCategory.LYRICS)\n\n        ACCEPTED'),
    ('hand-C20-mapping', 'C20', 'kernpy/io/public.py', '        kern_type=encoding,\n        instruments=instruments,\n        show_measure_numbers=show_measure_numbers,\n        spine_ids=spine_ids\n    )\n\n    return generic.Generic.store(',
     '        kern_type=None,\n        instruments=instruments,\n        show_measure_numbers=show_measure_numbers,\n        spine_ids=spine_ids\n    )\n\n    return generic.Generic.store('),
    ('hand-C03-barline', 'C03', 'kernpy/core/base_antlr_spine_parser_listener.py', "        if ctx.fermata():\n            txt_without_number += ctx.fermata().getText()", "        if ctx.fermata() and not ctx.barLineType():\n            txt_without_number += ctx.fermata().getText()"),
    ('hand-C15-step', 'C15', 'kernpy/core/document.py', "                    if subtoken.category == TokenCategory.PITCH:", "                    if subtoken.category != TokenCategory.DURATION:"),
    ('hand-C06-rowloop', 'C06', 'kernpy/core/exporter.py', "            if len(row) > 0 and not all(token in nullish_tokens for token in row):", "            if len(row) > 1 and not all(token in nullish_tokens for token in row):"),
    ('hand-C19-concat', 'C19', 'kernpy/core/generic.py', "            low_index = high_index + 1  # Next", "            low_index = high_index  # Next"),
    ('hand-C12-line', 'C12', 'kernpy/core/importer.py', "token = ErrorToken(column, self._row_number, str(error))", "token = ErrorToken(column, self._row_number - 1, str(error))"),
]


def scratch():
    d = tempfile.mkdtemp(prefix='kp_selftest_')
    shutil.copytree(os.path.join(REPO, 'kernpy'), os.path.join(d, 'kernpy'))
    shutil.copy(os.path.join(REPO, 'README.md'), d)
    return d


def run_check(prop, d):
    env = dict(os.environ, KERNPY_REPO=d)
    r = subprocess.run([os.path.join(VERIF, 'check'), prop, '-q'], cwd=VERIF, env=env, capture_output=True, text=True)
    viol = [l for l in r.stdout.splitlines() if l.startswith('VIOLATION')]
    return r.returncode, viol


def main(argv):
    only = set(argv)
    cases = []
    for line in open(os.path.join(VERIF, 'known_findings.jsonl')):
        line = line.strip()
        if not line:
            continue
        k = json.loads(line)
        if k.get('status') == 'fixed' and len(k.get('commit', '')) == 7:
            cases.append(('revert-' + k['commit'], k['property'], ('revert', k['commit'])))
    for d in sorted(glob.glob(os.path.join(VERIF, 'seeded', '*'))):
        meta = json.load(open(os.path.join(d, 'meta.json')))
        cases.append(('seed-' + os.path.basename(d), meta['property'], ('patch', os.path.join(d, 'patch.diff'))))
    for hid, prop, path, old, new in HAND:
        cases.append((hid, prop, ('edit', path, old, new)))
    failed = 0
    skip = tuple(x for x in os.environ.get('SELFTEST_SKIP_SUFFIX', '').split(',') if x)     # e.g. '-8,-9,-10': seeds evaluated elsewhere
    for cid, prop, how in cases:
        if only and cid not in only and prop not in only:
            continue
        if skip and cid.startswith('seed-') and cid.endswith(skip):
            continue
        d = scratch()
        try:
            note = ''
            if how[0] == 'revert':
                diff = subprocess.run(['git', '-C', REPO, 'show', how[1], '--', 'kernpy'], capture_output=True, text=True).stdout
                p = subprocess.run(['patch', '-R', '-p1', '-s', '--no-backup-if-mismatch'], cwd=d, input=diff, capture_output=True, text=True)
                if p.returncode != 0:
                    print(f'{cid:<28} {prop}  SKIPPED (reverse patch does not apply on top of later commits)')
                    continue
            elif how[0] == 'patch':
                p = subprocess.run(['patch', '-p1', '-s', '--no-backup-if-mismatch'], cwd=d, input=open(how[1]).read(), capture_output=True, text=True)
                if p.returncode != 0:
                    print(f'{cid:<28} {prop}  SKIPPED (patch does not apply)')
                    continue
            else:
                path = os.path.join(d, how[1])
                text = open(path).read()
                if how[2] not in text:
                    print(f'{cid:<28} {prop}  SKIPPED (anchor text not found)')
                    continue
                open(path, 'w').write(text.replace(how[2], how[3], 1))
            rc, viol = run_check(prop, d)
            ok = rc == 1 and viol
            failed += 0 if ok else 1
            first = viol[0].split('replay=')[1].split('/')[-1] if viol else ''
            print(f"{cid:<28} {prop}  {'DETECTED' if ok else 'MISSED (exit %d)' % rc}  {first}", flush=True)
        finally:
            shutil.rmtree(d, ignore_errors=True)
    print('selftest:', 'all mutants detected' if failed == 0 else f'{failed} mutant(s) missed')
    return 0 if failed == 0 else 1
