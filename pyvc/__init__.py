"""pyvc -- a small deductive verifier for the Python subset used by kernpy's hand-written code.

Pipeline: source.py (ast extraction from the *current* /repo tree) -> interp.py (symbolic execution to
paths, obligations) -> smt.py (SMT-LIB2 files, z3-new / cvc5 child processes) -> report.py (evidence, replay).
Contracts live in /verif/contracts and are ordinary Python executed by the same interpreter (symbolically for
proofs, natively for replay and bounded stand-ins).
"""
