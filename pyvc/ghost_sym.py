"""Symbolic versions of the ghost helpers (see ghost.py)."""
from __future__ import annotations

import z3
from .values import NativeFn, Unsupported, SStr, SSet, EnumVal, SEnum


def natives(I):
    from .interp import zbool, zint, simp, _and, _or, _not, is_sym
    from .source import ClassInfo

    def ite(c, a, b):
        t = I.truth(c)
        if isinstance(t, bool):
            return a if t else b
        if isinstance(a, bool) or isinstance(b, bool) or isinstance(a, z3.BoolRef) or isinstance(b, z3.BoolRef):
            return simp(z3.If(t, zbool(a), zbool(b)))
        if isinstance(a, (int, z3.ArithRef)) and isinstance(b, (int, z3.ArithRef)):
            return simp(z3.If(t, zint(a), zint(b)))
        if isinstance(a, (EnumVal, SEnum)) and isinstance(b, (EnumVal, SEnum)):
            return SEnum(a.cls, simp(z3.If(t, zint(I.enum_code(a)), zint(I.enum_code(b)))))
        if isinstance(a, (set, frozenset, SSet)) and isinstance(b, (set, frozenset, SSet)):
            cls = a.cls if isinstance(a, SSet) else (b.cls if isinstance(b, SSet) else None)
            A, B = I.to_sset(a, cls), I.to_sset(b, cls)
            return SSet(A.cls, {m: simp(z3.If(t, zbool(A.bits[m]), zbool(B.bits[m]))) for m in A.bits})
        # other sorts: fork
        return a if I.branch(t) else b

    def implies(a, b):
        return _or(_not(I.truth(a)), I.truth(b))

    def conj(*xs):
        acc = True
        for x in xs:
            acc = _and(acc, I.truth(x))
        return acc

    def disj(*xs):
        acc = False
        for x in xs:
            acc = _or(acc, I.truth(x))
        return acc

    def iff(a, b):
        from .interp import _iff
        return _iff(I.truth(a), I.truth(b))

    def forall(xs, f):
        acc = True
        for g, x in I.iterate_guarded(xs):
            acc = _and(acc, _or(_not(g), I.truth(I.call(f, [x], {}))))
        return acc

    def exists(xs, f):
        acc = False
        for g, x in I.iterate_guarded(xs):
            acc = _or(acc, _and(g, I.truth(I.call(f, [x], {}))))
        return acc

    def members(cls):
        return list(I.enum_members(cls))

    def _named(name):
        n = I.ghost_names.get(name, 0)
        I.ghost_names[name] = n + 1
        return name if n == 0 else f'{name}#{n}'

    def havoc_bool(name):
        nm = _named(name)
        v = z3.Bool(nm)
        I.input_vars[nm] = v
        return v

    def havoc_int(name):
        nm = _named(name)
        v = z3.Int(nm)
        I.input_vars[nm] = v
        return v

    def havoc_enum(name, cls):
        nm = _named(name)
        v = z3.Int(nm)
        I.input_vars[nm] = v
        I.assume(z3.And(v >= 0, v < len(I.enum_members(cls))))
        return SEnum(cls, v)

    def havoc_str(name):
        nm = _named(name)
        v = z3.String(nm)
        I.input_vars[nm] = v
        return SStr([('sym', v)])

    def ghost_set(key, value):
        I.ghost[key] = value

    def ghost_get(key, default=None):
        return I.ghost.get(key, default)

    def symbolic_run():
        return True

    def opaque(tag, *deps):
        from .interp import Opaque
        return Opaque(tag, deps)

    def ghost_events():
        # [(tag, method, args tuple, kwargs dict)] of the calls on external / opaque objects so far
        return [(t, m, tuple(a), dict(k)) for (t, m, a, k) in I.events]

    def uf_str(name, *args):
        zs = _uf_args(args)
        F = z3.Function(name, *([z.sort() for z in zs] + [z3.StringSort()]))
        return SStr([('sym', F(*zs))])

    def _uf_args(args):
        from .values import to_z3_string
        out = []
        for a in args:
            if isinstance(a, (str, SStr)):
                out.append(to_z3_string(a))
            elif isinstance(a, bool) or isinstance(a, z3.BoolRef):
                out.append(zbool(a))
            elif isinstance(a, (EnumVal, SEnum)):
                out.append(zint(I.enum_code(a)))
            else:
                out.append(zint(a))
        return out

    def uf_bool(name, *args):
        zs = _uf_args(args)
        F = z3.Function(name, *([z.sort() for z in zs] + [z3.BoolSort()]))
        return F(*zs)

    def uf_enum(name, cls, arg):
        from .values import to_z3_string
        F = z3.Function(name, z3.StringSort(), z3.IntSort())
        v = F(to_z3_string(arg))
        I.assume(z3.And(v >= 0, v < len(I.enum_members(cls))))
        return SEnum(cls, v)

    def fresh_list():
        from .values import XList
        return XList(None, [], False)

    table = dict(fresh_list=fresh_list, uf_bool=uf_bool, uf_enum=uf_enum, havoc_bool=havoc_bool, havoc_int=havoc_int, havoc_enum=havoc_enum, havoc_str=havoc_str,
                 ghost_set=ghost_set, ghost_get=ghost_get, symbolic_run=symbolic_run, uf_str=uf_str, opaque=opaque, ghost_events=ghost_events, ite=ite, implies=implies, conj=conj, disj=disj, iff=iff, forall=forall, exists=exists, members=members)
    return {f'pyvc.ghost.{k}': NativeFn(v, k) for k, v in table.items()}
