"""./check entry point.  Exit codes: 0 held, 1 violation (+ VIOLATION line), 2 undecided (tool reason), 3 checker crash."""
from __future__ import annotations

import argparse
import json
import os
import sys
import time
import traceback

VERIF = os.path.dirname(os.path.dirname(os.path.abspath(__file__)))
# KERNPY_REPO=<dir> points the whole machinery (ast extraction AND native replays) at another copy of the repository
# (used by ./check selftest and for seeded changes in scratch worktrees); default /repo.
if os.environ.get('KERNPY_REPO'):
    sys.path.insert(0, os.environ['KERNPY_REPO'])


def write_evidence(prop, evidence):
    # evidence/ describes runs against /repo itself; a run redirected to a scratch copy (KERNPY_REPO: mutants, seeded changes of the
    # self-test) writes under out/ instead
    sub = 'evidence' if not os.environ.get('KERNPY_REPO') else os.path.join('out', 'evidence_scratch')
    os.makedirs(os.path.join(VERIF, sub), exist_ok=True)
    path = os.path.join(VERIF, sub, f'{prop}.json')
    with open(path, 'w') as f:
        json.dump(evidence, f, indent=1, default=str)
    return path


def check_property(prop, tier, seed, only=None, verbose=True):
    from pyvc import runner
    res = runner.run_property(prop, tier, seed, only)
    ev = res['evidence']
    write_evidence(prop, ev)
    cov = ev['coverage']
    if verbose:
        for f in cov['functions_under_contract']:
            print(f"  {f['contract']:<36} {f['kind']:<8} paths={f['paths']:<5} obligations={f['obligations']:<6} discharged={f['discharged']}")
    print(f"{prop}: level={ev['level']} obligations={cov['obligations']} discharged={cov['discharged']} "
          f"z3={cov['by_backend']['z3']} cvc5={cov['by_backend']['cvc5']} solver_time={cov['solver_time_s']}s wall={ev['wall_s']}s")
    for line in res['known_lines']:
        print(line)
    for u in res['unproved']:
        print(f"UNPROVED (out of subset, not a verdict): {u['contract']}: {u['reason'][0]}")
    code = 0
    if res['crashes']:
        for name, err in res['crashes']:
            print(f'CHECKER-ERROR in {name}: {err.strip().splitlines()[-1] if err.strip() else err}', file=sys.stderr)
            if os.environ.get('PYVC_DEBUG'):
                print(err, file=sys.stderr)
        code = 3
    if res['undecided'] and code == 0:
        for name, it in res['undecided'][:10]:
            print(f"UNDECIDED {name}/{it['oid']} ({it['by_backend']})")
        code = 2
    if res['violations']:
        for line, rec in res['violations']:
            print(line)
        code = 1
    return code


def main(argv=None):
    ap = argparse.ArgumentParser(prog='check')
    ap.add_argument('what')
    ap.add_argument('rest', nargs='*')
    ap.add_argument('--tier', default=os.environ.get('VERIF_TIER', 'quick'))
    ap.add_argument('--only', default=None)
    ap.add_argument('-q', '--quiet', action='store_true')
    args = ap.parse_args(argv)
    seed = int(os.environ.get('VERIF_SEED', '0') or 0)
    try:
        if args.what == 'replay':
            from pyvc import replaycmd
            return replaycmd.main(args.rest[0])
        if args.what == 'selftest':
            from pyvc import selftest
            return selftest.main(args.rest)
        if args.what == 'baseline':
            # records which obligations are discharged on the current (pinned, repaired) tree: a later failure of one of them
            # without a concrete input is reported as a violation (no-failing-input-found); a failure of an obligation that
            # was never discharged is an engine limitation (undecided)
            from pyvc import runner
            props = args.rest or sorted({p for ci in runner.load_contracts().values() for p in ci.props})
            path = os.path.join(VERIF, 'baseline_obligations.json')
            data = json.load(open(path)) if os.path.exists(path) else {}
            for p in props:
                res = runner.run_property(p, 'quick', seed)
                data[p] = res['discharged_ids']
                print(p, len(data[p]), 'obligation ids')
            json.dump(data, open(path, 'w'), indent=0, sort_keys=True)
            return 0
        if args.what == 'all':
            from pyvc import runner
            props = sorted({p for ci in runner.load_contracts().values() for p in ci.props})
            worst = 0
            for p in props:
                worst = max(worst, check_property(p, args.tier, seed, verbose=not args.quiet))
            return worst
        only = args.only.split(',') if args.only else None
        return check_property(args.what, args.tier, seed, only, verbose=not args.quiet)
    except Exception:
        traceback.print_exc()
        return 3


if __name__ == '__main__':
    sys.exit(main())
