"""Symbolic-length sequences (filled in by the fold layer, see loops.py)."""
from __future__ import annotations


class SSeq:
    """A sequence of unknown length.  `length` is a z3 Int term; elements are described by an element factory
    (a function index -> symbolic element) so that loops over the sequence are verified through their step
    function for an arbitrary element (fold rule, DESIGN 2.5)."""

    def __init__(self, name, length, elem_factory, kind='list', prestate=True):
        self.name, self.length, self.elem_factory, self.kind, self.prestate = name, length, elem_factory, kind, prestate
