"""Sequences of unknown length: the pipe algebra (DESIGN 2.5, S-seq).

A symbolic sequence is a *pipe* over a source sequence:  source --filter(pred)--> --stable sort(keys)--> --map(fn)-->.
pred / keys / fn are pointwise, so a pipe is described completely by their values on one arbitrary ("canonical") element.
Comprehensions, sorted(), filter and ''.join over pipes are evaluated algebraically:

    [f(x) for x in P if c(x)]      = P with pred /\\ c and map f . map_P
    sorted(P, key=k)               = P with one more (outer) sort key
    sep.join(P), len(P), bool(P)   = observables J(sep, P), LEN(P), NE(P): fresh constants shared by all pipes that are
                                     proved equal (same source; pointwise-equivalent pred and map; order-equivalent keys)

Two pipes are unified only after the solver has proved those pointwise facts for an arbitrary element (pair of elements
for the sort keys) under the element invariants; each such fact is also emitted as an obligation ('unify:') and
re-discharged by the back ends.  Congruence of filter / stable sort / map / join under pointwise equivalence, and the
commutation  filter . sort == sort . filter  for pointwise predicates, are the rules this layer trusts.
"""
from __future__ import annotations

import z3
from typing import Callable, Dict, List, Optional, Tuple

from .values import Unsupported, SStr, SObj, SEnum, EnumVal


class SeqSource:
    def __init__(self, name, elem_builder: Callable[[str], object], inv: Optional[Callable] = None,
                 pair_inv: Optional[Callable] = None, kind='list'):
        self.name = name
        self.elem_builder = elem_builder      # suffix -> symbolic element (fresh z3 constants named name[suffix].*)
        self.inv = inv                        # element -> z3 Bool / bool
        self.pair_inv = pair_inv              # (element, element) -> z3 Bool / bool : holds for two elements at different positions
        self.kind = kind
        self._elems: Dict[str, object] = {}
        self.length = z3.Int(f'{name}.len')

    def elem(self, suffix):
        if suffix not in self._elems:
            self._elems[suffix] = self.elem_builder(suffix)
        return self._elems[suffix]

    def canonical_items(self):
        return [(k, v) for k, v in self._elems.items() if not k.startswith('@')]


class SSeq:
    """pipe = source + a chain of stages ('filter' | 'sort' | 'map', fn); fn maps the current element value to a value.
    Pipes are immutable; the evaluation at a canonical element is cached per pipe and shared with its prefix pipes."""

    def __init__(self, src: SeqSource, stages=(), kind='list', prestate=True, parent=None, stage=None):
        self.src = src
        self.parent = parent
        self.stage = stage
        self.kind = kind
        self.prestate = prestate
        self._canon = None
        self._cache = {}
        if stages:
            # build the chain
            p = SSeq(src, (), kind, prestate)
            for st in stages:
                p = SSeq(src, (), 'list', False, p, st)
            self.parent, self.stage = p.parent, p.stage

    @property
    def stages(self):
        out = []
        p = self
        while p is not None and p.stage is not None:
            out.append(p.stage)
            p = p.parent
        return tuple(reversed(out))

    @property
    def length(self):
        raise Unsupported('use len() on a pipe')

    def with_stage(self, kind, fn):
        return SSeq(self.src, (), 'list', False, self, (kind, fn))

    def is_base(self):
        return self.stage is None

    def order_shape(self):
        """the sequence of order-changing stages: two pipes are the same list only if these agree (and the sort keys are
        order-equivalent, the filters and maps pointwise equal)"""
        return tuple(k for k, _ in self.stages if k in ('sort', 'reverse'))

    def eval_at(self, suffix):
        """(pred: z3 Bool|bool, keys: [value], value) of the pipe at the canonical element `suffix`."""
        from .interp import _and
        if suffix in self._cache:
            return self._cache[suffix]
        if self.stage is None:
            r = (True, [], self.src.elem(suffix))
        else:
            pred, keys, v = self.parent.eval_at(suffix)
            kind, fn = self.stage
            if kind == 'filter':
                r = (_and(pred, fn(v)), keys, v)
            elif kind == 'sort':
                r = (pred, keys + [fn(v)], v)
            elif kind == 'reverse':
                r = (pred, keys, v)         # the order is part of the pipe's shape (order_shape), not of its value at an element
            else:
                r = (pred, keys, fn(v))
        self._cache[suffix] = r
        return r


class PipeTable:
    """Per-run registry of canonical pipes and their observables."""

    def __init__(self, I):
        self.I = I
        self.canon: List[dict] = []     # [{'pipe': SSeq, 'id': n}]
        self.joins: Dict[int, tuple] = {}   # z3 id of a join observable -> (pipe, separator, const)
        self.obs: Dict[tuple, object] = {}

    def canon_id(self, p: SSeq) -> int:
        if p._canon is not None:
            return p._canon
        for entry in self.canon:
            q = entry['pipe']
            if q.src is p.src and self.equivalent(p, q):
                p._canon = entry['id']
                return p._canon
        p._canon = len(self.canon)
        self.canon.append({'pipe': p, 'id': p._canon})
        return p._canon

    # -- the pointwise proofs ------------------------------------------------------------------------------------------
    def _inv(self, src: SeqSource, suffix):
        from .interp import zbool
        if src.inv is None:
            return z3.BoolVal(True)
        r = self.I.truth(src.inv(src.elem(suffix)))
        return zbool(r)

    def valid(self, hyps, goal, label):
        """Is (pc /\\ hyps) => goal valid?  Decided in-process with a time limit (needed to continue the run); the same
        fact is emitted as a 'unify:' obligation for the back ends when it is used."""
        from .interp import zbool, simp
        g = simp(zbool(goal)) if not isinstance(goal, bool) else goal
        if g is True:
            return True
        if g is False:
            return False
        hs = [zbool(h) for h in hyps if h is not True]
        # 1. without the path condition: a pointwise fact proved from the element invariants alone holds on every path, so
        #    the answer is cached across paths (the cache key is the text of the query)
        key = (tuple(sorted(h.sexpr() for h in hs)), g.sexpr())
        cache = self.I.valid_cache
        r0 = cache.get(key)
        if r0 is None:
            s = z3.Solver()
            s.set('timeout', 2000)
            for h in hs:
                s.add(h)
            s.add(z3.Not(g))
            r0 = s.check() == z3.unsat
            cache[key] = r0
        if r0:
            self.I.oblige_with(hyps, 'unify', label, g)
            return True
        # 2. with the path condition (e.g. 'no filter was passed' on this path).  Paths share long prefixes of their path
        #    conditions: the answer is cached under the identities of the (hash-consed) conjuncts, which the entry keeps alive.
        pc = list(self.I.pc)
        key2 = (key, tuple(c.get_id() for c in pc))
        hit = cache.get(key2)
        if hit is None:
            s = z3.Solver()
            s.set('timeout', 2000)
            for c in pc:
                s.add(c)
            for h in hs:
                s.add(h)
            s.add(z3.Not(g))
            hit = (s.check() == z3.unsat, pc)
            cache[key2] = hit
        if hit[0]:
            self.I.oblige_with(hyps, 'unify', label, g)
            return True
        return False

    def equivalent(self, p: SSeq, q: SSeq) -> bool:
        from .interp import zbool, _and, _iff
        I = self.I
        if p.order_shape() != q.order_shape():
            return False
        pp, pk, pv = p.eval_at('i')
        qp, qk, qv = q.eval_at('i')
        inv_i = self._inv(p.src, 'i')
        # same filter
        if not self.valid([inv_i], _iff(pp, qp), f'{p.src.name}:pred'):
            return False
        # same mapped value on the kept elements
        if not self.valid([inv_i, pp], self.value_eq(pv, qv), f'{p.src.name}:map'):
            return False
        # order-equivalent sort keys on every pair of kept elements
        if pk or qk:
            pp2, pk2, _ = p.eval_at('j')
            qp2, qk2, _ = q.eval_at('j')
            inv_j = self._inv(p.src, 'j')
            hy = [inv_i, inv_j, pp, pp2]
            if p.src.pair_inv is not None:
                hy.append(I.truth(p.src.pair_inv(p.src.elem('i'), p.src.elem('j'))))
            lt_p = self.lex_lt(pk, pk2)
            lt_q = self.lex_lt(qk, qk2)
            if not self.valid(hy, _iff(lt_p, lt_q), f'{p.src.name}:order'):
                return False
        return True

    def value_eq(self, a, b):
        I = self.I
        if a is b:
            return True
        try:
            return I.truth(I.equals(a, b)) if not (isinstance(a, SObj) and isinstance(b, SObj)) else (a is b)
        except Unsupported:
            return False

    def lex_lt(self, ks1, ks2):
        """strict 'comes before' of the stacked sort keys: the LAST sort applied is the most significant; ties fall back
        to earlier sorts (stable), finally to source order (not a key)."""
        from .interp import _and, _or
        import ast
        I = self.I
        acc = False
        for k1, k2 in zip(ks1, ks2):      # innermost first
            lt = I.truth(I.order(ast.Lt(), k1, k2))
            eq = I.truth(I.equals(k1, k2))
            acc = _or(lt, _and(eq, acc))
        return acc

    # -- observables ---------------------------------------------------------------------------------------------------
    def observable(self, p: SSeq, what: str, extra=None):
        from .interp import zbool
        I = self.I
        cid = self.canon_id(p)
        if what in ('ne', 'len'):
            # emptiness and length do not depend on sort keys or maps: canonical id of the filter-only pipe
            if not hasattr(p, '_fonly'):
                stages = p.stages
                if not any(st[0] in ('sort', 'map', 'reverse') for st in stages):
                    p._fonly = p
                else:
                    # one filter stage that keeps an element iff the whole pipe keeps it (maps matter only through later filters)
                    def keeps(e, stages=stages):
                        from .interp import _and
                        v, pred = e, True
                        for kind, fn in stages:
                            if kind == 'filter':
                                pred = _and(pred, fn(v))
                            elif kind == 'map':
                                v = fn(v)
                        return pred
                    p._fonly = SSeq(p.src, (('filter', keeps),), 'list', False)
            cid = self.canon_id(p._fonly)
        key = (cid, what, extra)
        if key in self.obs:
            return self.obs[key]
        base = f'{p.src.name}~{cid}'
        if what == 'ne':
            ln = self.observable(p, 'len')
            v = ln > 0
        elif what == 'len':
            v = z3.Int(f'len({base})')
            I.assume(v >= 0)
            if not [st for st in p.stages if st[0] == 'filter']:
                I.assume(v == p.src.length)
            else:
                I.assume(v <= p.src.length)
                pp, _, _ = p.eval_at('i')
                inv_i = self._inv(p.src, 'i')
                from .interp import _not
                if self.valid([inv_i], _not(pp), f'{p.src.name}:filter-rejects-everything'):
                    I.assume(v == 0)
                elif self.valid([inv_i], pp, f'{p.src.name}:filter-keeps-everything'):
                    I.assume(v == p.src.length)
        elif what == 'join':
            v = z3.String(f'join({extra!r},{base})')
            self.joins[v.get_id()] = (p, extra, v)       # (kept alive by the entry) lets string rules look into the joined text
            ne = self.observable(p, 'ne')
            I.assume(z3.Implies(z3.Not(ne), v == z3.StringVal('')))
            # if every kept element maps to a non-empty string, a non-empty pipe joins to a non-empty string
            pp, _, pv = p.eval_at('i')
            from .values import str_len
            try:
                nonempty = I.truth(I.compare_len_positive(pv))
                if self.valid([self._inv(p.src, 'i'), pp], nonempty, f'{p.src.name}:nonempty-elements'):
                    I.assume(z3.Implies(ne, z3.Length(v) > 0))
            except Unsupported:
                pass
        else:
            raise ValueError(what)
        self.obs[key] = v
        return v


    # -- folds -----------------------------------------------------------------------------------------------------------
    def fold(self, pipe: SSeq, accs, init, acc_syms, step, pred):
        """observables for the accumulators after  for x in pipe: acc = step(acc, x)"""
        from .interp import zbool, simp, _and, _iff
        I = self.I
        if not hasattr(self, 'folds'):
            self.folds = []
        # effective step on a source element: unchanged when the element is filtered out
        entry = None
        for f in self.folds:
            if f['pipe'].src is not pipe.src or len(f['accs']) != len(accs):
                continue
            # positional correspondence of the accumulators (names may differ between code and specification)
            ren = dict(zip(accs, f['accs']))
            f_init = {n: f['init'][ren[n]] for n in accs}
            f_step = {n: f['step'][ren[n]] for n in accs}
            f_res = {n: f['res'][ren[n]] for n in accs}
            f = dict(f, init=f_init, step=f_step, res=f_res)
            if not self._same_order(pipe, f['pipe']):
                continue
            ok = True
            hy = [self._inv(pipe.src, 'i')]
            for n in accs:
                if not self.valid([], self.value_eq(init[n], f['init'][n]), f'{pipe.src.name}:fold-init'):
                    ok = False
                    break
            if not ok:
                continue
            # same filter and same step (the accumulator symbols are shared by name)
            if not self.valid(hy, _iff(pred, f['pred']), f'{pipe.src.name}:fold-pred'):
                continue
            for n in accs:
                if not self.valid(hy + [pred], self.value_eq(step[n], f['step'][n]), f'{pipe.src.name}:fold-step'):
                    ok = False
                    break
            if ok:
                entry = f
                break
        if entry is None:
            fid = len(self.folds)
            res = {}
            for n in accs:
                v = init[n]
                nm = f'fold({pipe.src.name}#{fid}).{n}'
                if isinstance(v, (str, SStr)):
                    res[n] = SStr([('sym', z3.String(nm))])
                elif isinstance(v, bool) or isinstance(v, z3.BoolRef):
                    res[n] = z3.Bool(nm)
                else:
                    res[n] = z3.Int(nm)
            entry = {'pipe': pipe, 'accs': accs, 'init': init, 'step': step, 'pred': pred, 'res': res}
            self.folds.append(entry)
            # an empty pipe leaves the accumulators at their initial values
            ne = self.observable(pipe, 'ne')
            for n in accs:
                eq = self.value_eq(res[n], init[n])
                if eq is not True and eq is not False:
                    I.assume(z3.Implies(z3.Not(ne), zbool(eq)))
        return entry['res']

    def _same_order(self, p: SSeq, q: SSeq) -> bool:
        from .interp import _iff
        _, pk, _ = p.eval_at('i')
        _, qk, _ = q.eval_at('i')
        if not pk and not qk:
            return True
        pp, pk, _ = p.eval_at('i')
        pp2, pk2, _ = p.eval_at('j')
        _, qk, _ = q.eval_at('i')
        _, qk2, _ = q.eval_at('j')
        hy = [self._inv(p.src, 'i'), self._inv(p.src, 'j'), pp, pp2]
        return self.valid(hy, _iff(self.lex_lt(pk, pk2), self.lex_lt(qk, qk2)), f'{p.src.name}:fold-order')
