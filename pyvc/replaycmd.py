"""./check replay <file>: re-runs the recorded failing input on the real code; exit 1 while the failure persists."""
import json
import sys


def main(path):
    from pyvc import runner, verify
    runner.load_contracts()
    from pyvc.contract import REGISTRY
    rec = json.load(open(path))
    ci = REGISTRY.get(rec.get('contract'))
    if ci is None:
        print('unknown contract', rec.get('contract'))
        return 3
    ob = rec.get('obligation') or rec.get('failed_obligation', '').split('/', 2)[-1]
    kind, label = ob.split(':', 1)
    info = verify.replay(ci, kind, label, rec.get('model', {}))
    print(json.dumps({k: info.get(k) for k in ('contract', 'target', 'obligation', 'arguments', 'observed', 'clause', 'confirmed', 'reason')},
                     indent=1, default=str))
    if info.get('confirmed'):
        print(f"REPLAY: the recorded input still violates {rec.get('failed_obligation', ob)}")
        return 1
    print('REPLAY: the recorded input no longer violates the clause')
    return 0
