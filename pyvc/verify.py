"""Verification driver: explores the paths of a function under contract, emits obligations, discharges them,
turns counter-models into concrete arguments and replays them on the real code."""
from __future__ import annotations

import ast
import copy
import importlib
import json
import os
import time
import traceback
from typing import Dict, List, Optional

import z3

from .ghost import SymbolicOnly
from .interp import Interp, PyRaise, Infeasible, Obligation, zbool, simp, CutReached, ShapeOutOfDate
from .values import Unsupported, SObj, SStr, SSet
from .contract import ContractInfo, SymFactory, ConcreteFactory, Registry
from .source import ClassInfo
from . import smt

MAX_PATHS = 6000


class ObResult:
    def __init__(self, full_id, ob: Obligation, query: smt.Query, path_no):
        self.full_id, self.ob, self.query, self.path_no = full_id, ob, query, path_no


class FunctionReport:
    def __init__(self, ci: ContractInfo):
        self.ci = ci
        self.paths = 0
        self.infeasible = 0
        self.unsupported: List[str] = []
        self.results: List[ObResult] = []
        self.inlined = set()
        self.contract_uses = set()
        self.source_hash = ''
        self.error = None
        self.wall_s = 0.0


def snapshot(v, memo=None):
    """Structure-preserving copy of the pre-state (for `old` in clauses)."""
    if memo is None:
        memo = {}
    if id(v) in memo:
        return memo[id(v)]
    if isinstance(v, list):
        r = []
        memo[id(v)] = r
        r.extend(snapshot(x, memo) for x in v)
        return r
    if isinstance(v, dict):
        r = {}
        memo[id(v)] = r
        for k, x in v.items():
            r[k] = snapshot(x, memo)
        return r
    if isinstance(v, set):
        return set(v)
    if isinstance(v, tuple):
        return tuple(snapshot(x, memo) for x in v)
    if isinstance(v, SSet):
        return v.copy()
    from .values import XList
    if isinstance(v, XList):
        r = XList(v.base, v.items, v.prestate)
        memo[id(v)] = r
        return r
    if isinstance(v, SObj):
        r = SObj(v.cls, False)
        r.orig = getattr(v, 'orig', v)      # the snapshot of an object is identical (`is`) to the object it was taken from
        memo[id(v)] = r
        for k, x in v.fields.items():
            r.fields[k] = snapshot(x, memo)
        return r
    return v


def _reach(v, acc: set, depth):
    if depth > 6 or id(v) in acc:
        return
    if isinstance(v, SObj):
        acc.add(id(v))
        for x in v.fields.values():
            _reach(x, acc, depth + 1)
    elif isinstance(v, (list, dict, set, tuple)):
        if not isinstance(v, tuple):
            acc.add(id(v))
        for x in (v.values() if isinstance(v, dict) else v):
            _reach(x, acc, depth + 1)


def private_of(ci):
    """names of the parameters whose private state may change (`modifies` entries of the form 'name.**')"""
    mods = getattr(ci.pycls, 'modifies', ())
    return tuple(m[:-3] for m in (mods if not callable(mods) else ()) if m.endswith('.**'))


def _visible(ci, vals):
    hide = private_of(ci)
    return {k: v for k, v in vals.items() if k not in hide}


def resolve_paths(vals: dict, paths) -> set:
    """ids of the objects a `modifies` tuple allows to be written (with the attribute, or None for containers)."""
    allowed = set()
    for p in paths or ():
        if p.endswith('.**'):
            # the private state of a worker object (an Exporter, a tokenizer: created per call by their callers): the object and the
            # containers / objects reachable from it only.  A cache kept there is not a change of anything a property speaks about.
            base = vals.get(p[:-3])
            shared = set()
            for k, v in vals.items():
                if k != p[:-3]:
                    _reach(v, shared, 0)
            own = set()
            _reach(base, own, 0)
            for i in own - shared:
                allowed.add((i, None))
            continue
        parts = p.split('.')
        obj = vals.get(parts[0])
        attr = None
        for i, a in enumerate(parts[1:]):
            if i == len(parts) - 2 and isinstance(obj, SObj) and not isinstance(obj.fields.get(a), (list, dict, set, SObj)):
                attr = a
                break
            if isinstance(obj, SObj):
                obj = obj.fields.get(a)
            elif isinstance(obj, dict):
                obj = obj.get(a)
        allowed.add((id(obj), attr))
        allowed.add((id(obj), None) if attr is None else (id(obj), attr))
    return allowed


def run_one(I: Interp, reg: Registry, ci: ContractInfo, f, known_excludes=()):
    reg.current_uses = tuple(getattr(ci.pycls, 'uses', ()))
    g = SymFactory(I)
    vals = reg.call_clause(I, ci, 'inputs', {'g': g})
    if not isinstance(vals, dict):
        raise RuntimeError(f'{ci.name}.inputs must return a dict')
    for v in vals.values():
        _mark(I, v)
    if ci.has('requires'):
        I.assume(I.truth(reg.call_clause(I, ci, 'requires', vals)))
    for tag in known_excludes:
        I.assume(simp(z3.Not(zbool(I.truth(reg.call_clause(I, ci, 'known_' + tag, vals))))))
    I.oblige('cover', 'requires', True)
    old = snapshot(vals)
    mods = getattr(ci.pycls, 'modifies', ())
    allowed = resolve_paths(vals, mods if not callable(mods) else ())
    call_kwargs = {k: v for k, v in vals.items() if not k.startswith('_')}
    I.writes = []
    outcome, result, exc = 'normal', None, None
    cut = getattr(ci.pycls, 'cut', None)
    if cut:
        I.cut_text, I.havoc_loops = cut, True
    try:
        if ci.kind == 'function' and getattr(ci.pycls, 'step', None):
            # a loop-step contract: one iteration of the named loop from the state the contract's inputs describe
            flow, result, env = I.run_step(f, ci.pycls.step, call_kwargs)
            vals = dict(vals)
            vals.update(env.vars)
            vals['flow'] = flow
        elif ci.kind == 'function':
            try:
                if getattr(ci.pycls, 'tail', None):
                    # a tail contract: the statements after the named loop, to the end of the function, from the state the inputs
                    # describe -- or, when the contract also names a cut point, up to that later loop (a segment contract)
                    result, env = I.run_tail(f, ci.pycls.tail, call_kwargs)
                    vals = dict(vals)
                    vals.update(env.vars)
                else:
                    result = I.call_function(f, [], call_kwargs)
            except CutReached as c:
                # the contract is stated at a cut point (a loop head) instead of at the exit: its cut_* clauses see the locals
                values = dict(vals)
                values.update(c.env.vars)
                for name in [n for n in vars(ci.pycls) if n.startswith('cut_')]:
                    I.oblige('post', name[4:], I.truth(reg.call_clause(I, ci, name, values)))
                if getattr(ci.pycls, 'tail', None):
                    # segment contract: its post_* clauses are stated over the locals at the cut point
                    for name in ci.clauses:
                        try:
                            goal = I.truth(reg.call_clause(I, ci, name, values))
                        except PyRaise as e:
                            I.oblige('post', name[5:], False, note=f'the clause raised {e.exc_name}')
                            continue
                        I.oblige('post', name[5:], goal)
                # frame up to the cut point: nothing that existed before the call has been written on the way -- neither by the
                # statements that were followed nor inside the loops that were over-approximated (syntactic ownership, see
                # Interp.loop_heap_writes).  One obligation per path, so that it has an identity on the unchanged tree
                bad = []
                for (line, func, what, fresh, obj) in I.writes:
                    if fresh:
                        continue
                    attr = what[1:] if what.startswith('.') else None
                    if (id(obj), attr) in allowed or (id(obj), None) in allowed:
                        continue
                    bad.append(f'{what.strip()} at {func}:{line}')
                I.oblige('frame', 'nothing-visible-written-before-the-cut', len(bad) == 0, note='; '.join(bad))
                # the exceptional exits before the cut: the loop is reached only when the contract demands no exception
                if ci.has('raises'):
                    for exc_name, cond in reg.call_clause(I, ci, 'raises', vals).items():
                        I.oblige('exc', f'no-{exc_name}', simp(z3.Not(zbool(I.truth(cond)))), note='the loop is reached although the contract demands this exception')
                return 'cut'
        elif ci.kind == 'const':
            mod, expr = I.index.const_expr(ci.const)
            result = I.static_value(('const', mod, expr))
    except PyRaise as e:
        outcome, exc = 'raise', e
    values = dict(vals)
    values['result'] = result
    values['old'] = old
    table = reg.call_clause(I, ci, 'raises', vals) if ci.has('raises') else {}
    I.cur_func, I.cur_line = (f.qualname if f is not None else ci.name), None
    if cut:
        # a cut-point contract says nothing about the normal exits of the function; an exception raised on the way to the cut point
        # is checked against its `raises` table (which exception, under which condition)
        if outcome == 'raise' and ci.has('raises'):
            if exc.exc_name in table:
                I.oblige('exc', exc.exc_name, I.truth(table[exc.exc_name]), note=f'raised at {exc.func}:{exc.line}')
            else:
                I.oblige('safe', f'no-{exc.exc_name}', False, note=f'uncaught {exc.exc_name} raised at {exc.func}:{exc.line}')
        return outcome
    if outcome == 'normal':
        for exc_name, cond in table.items():
            I.oblige('exc', f'no-{exc_name}', simp(z3.Not(zbool(I.truth(cond)))), note='normal return although the contract demands this exception')
        for name in ci.clauses:
            try:
                goal = I.truth(reg.call_clause(I, ci, name, values))
            except PyRaise as e:
                # the clause itself raised (e.g. an index that the specification assumes to be in range): it does not hold
                I.oblige('post', name[5:], False, note=f'the clause raised {e.exc_name}')
                continue
            I.oblige('post', name[5:], goal)
    else:
        if exc.exc_name in table:
            I.oblige('exc', exc.exc_name, I.truth(table[exc.exc_name]), note=f'raised at {exc.func}:{exc.line}')
        else:
            I.oblige('safe', f'no-{exc.exc_name}', False, note=f'uncaught {exc.exc_name} raised at {exc.func}:{exc.line}')
    if ci.kind == 'function' and ci.has('modifies_objs'):
        # the objects that may be written, as an expression over the parameters (evaluated after the call; identity is stable)
        try:
            nw = len(I.writes)
            for o in reg.call_clause(I, ci, 'modifies_objs', values):
                allowed.add((id(o), None) if not isinstance(o, str) else (o, None))
            del I.writes[nw:]
        except (PyRaise, Unsupported):
            pass
    for (line, func, what, fresh, obj) in (I.writes if ci.kind == 'function' else []):
        if fresh:
            continue
        if isinstance(obj, ClassInfo) and (f'{obj.name}{what}', None) in allowed:
            continue
        attr = what[1:] if what.startswith('.') else None
        if (id(obj), attr) in allowed or (id(obj), None) in allowed:
            continue
        short = (func or '?').split('.')[-1]
        I.oblige('frame', f'{short}{what}', False, note=f'write {what} to a pre-existing {type(obj).__name__} at {func}:{line}')
    return outcome


def _mark(I, v, depth=0):
    if isinstance(v, (list, dict, set)):
        I.prestate_ids.add(id(v))
        if depth < 8:
            for x in (v.values() if isinstance(v, dict) else v):
                _mark(I, x, depth + 1)
    elif isinstance(v, SObj) and depth < 8:
        for x in v.fields.values():
            _mark(I, x, depth + 1)
    elif isinstance(v, tuple):
        for x in v:
            _mark(I, x, depth + 1)


def explore(index, reg: Registry, ci: ContractInfo, prop: str, known_excludes=(), max_paths=MAX_PATHS):
    return explore_prefix(index, reg, ci, prop, [], known_excludes, max_paths)


def first_level(index, reg: Registry, ci: ContractInfo, prop: str, known_excludes=(), want=48, max_depth=4):
    """Decision prefixes that partition the path tree (work units for the process pool): the tree is expanded breadth-first
    along the first forks until there are enough units."""
    f = index.function(ci.target) if ci.kind == 'function' else None
    I = Interp(index, reg)
    prefixes = [[]]
    for depth in range(max_depth):
        if len(prefixes) >= want:
            break
        nxt = []
        grew = False
        for p in prefixes:
            if len(p) < depth:          # a leaf found earlier
                nxt.append(p)
                continue
            I.reset(p)
            I.verifying = f.qualname if f is not None else None
            try:
                run_one(I, reg, ci, f, known_excludes)
            except (Infeasible, Unsupported, PyRaise, RecursionError):
                pass
            if len(I.arities) > len(p) and I.arities[len(p)] > 1:
                for k in range(I.arities[len(p)]):
                    nxt.append(list(p) + [k])
                grew = True
            else:
                nxt.append(p)
        prefixes = nxt
        if not grew:
            break
    return prefixes


def explore_prefix(index, reg: Registry, ci: ContractInfo, prop: str, prefix, known_excludes=(), max_paths=MAX_PATHS, budget=None):
    """Symbolic execution of all paths below a decision prefix; returns (FunctionReport, [(full_id, Obligation, inputs, path_no)]).
    With a budget, the subtrees not yet entered after `budget` paths are handed back in rep.leftover (independent decision prefixes:
    the caller schedules them as new work units, so one deep subtree does not keep a single core busy)."""
    rep = FunctionReport(ci)
    rep.leftover = []
    f = index.function(ci.target) if ci.kind == 'function' else None
    rep.source_hash = f.source_hash() if f is not None else ''
    I = Interp(index, reg)
    work = [list(prefix)]
    obs = []
    seen_unsupported = set()
    while work:
        dec = work.pop()
        if rep.paths >= max_paths:
            rep.unsupported.append(f'path limit {max_paths} reached')
            break
        if budget is not None and rep.paths >= budget:
            rep.leftover = [dec] + work
            break
        I.reset(dec)
        I.verifying = f.qualname if f is not None else None
        status = 'ok'
        try:
            run_one(I, reg, ci, f, known_excludes)
        except Infeasible:
            status = 'infeasible'
            rep.infeasible += 1
        except Unsupported as e:
            status = 'unsupported'
            if os.environ.get('PYVC_DEBUG'):
                traceback.print_exc()
            msg = f'{e} (in {I.cur_func}:{I.cur_line})'
            if msg not in seen_unsupported:
                seen_unsupported.add(msg)
                rep.unsupported.append(msg)
        except RecursionError:
            status = 'unsupported'
            rep.unsupported.append('python recursion limit in the interpreter')
        except (IndexError, KeyError, TypeError, AttributeError, ValueError, AssertionError) as e:
            # a code shape the interpreter's own rules did not foresee: the function is outside the subset (its bounded stand-in
            # decides), not a checker crash
            status = 'unsupported'
            if os.environ.get('PYVC_DEBUG'):
                traceback.print_exc()
            msg = f'interpreter limitation ({type(e).__name__}: {e}) (in {I.cur_func}:{I.cur_line})'
            if msg not in seen_unsupported:
                seen_unsupported.add(msg)
                rep.unsupported.append(msg)
        rep.paths += 1
        for i in range(max(len(dec), len(prefix)), len(I.decisions)):
            if i < len(I.arities):
                for k in range(1, I.arities[i]):
                    work.append(I.decisions[:i] + [k])
        rep.inlined |= I.inlined
        rep.contract_uses |= {u[0] for u in I.contract_uses}
        if status in ('ok', 'unsupported', 'infeasible'):
            # obligations emitted before an Unsupported construct (or before the path condition became unsatisfiable, e.g. a
            # call-site precondition that is plainly false) are still valid obligations of that path prefix
            for ob in I.obligations:
                full = f'{prop}/{ci.name}/{ob.oid}'
                obs.append((full, ob, dict(I.input_vars), rep.paths))
    return rep, obs


def discharge(rep: FunctionReport, obs, outdir, timeout_s=10.0, both=False):
    queries = []
    for full, ob, inputs, path_no in obs:
        if ob.kind == 'cover':
            q = smt.make_query(full, ob.pc, z3.BoolVal(True), expect='sat', input_names=inputs.keys())
        else:
            q = smt.make_query(full, ob.pc, ob.goal, expect='unsat', input_names=inputs.keys())
        queries.append(q)
        rep.results.append(ObResult(full, ob, q, path_no))
    smt.solve_all(queries, outdir, timeout_s, both)
    return rep


# ----------------------------------------------------------------------------------------------------- replay
def resolve_target(qualname: str):
    parts = qualname.split('.')
    for i in range(len(parts) - 1, 0, -1):
        try:
            mod = importlib.import_module('.'.join(parts[:i]))
        except ImportError:
            continue
        obj = mod
        owner = None
        for a in parts[i:]:
            owner = obj
            if a == 'setter':
                return owner, 'setter', obj
            obj = getattr(obj, a) if not isinstance(obj, property) else obj
        return owner, parts[-1], obj
    raise ImportError(qualname)


def global_state():
    """the mutable module-level and class-level state of the kernpy package (dict / list / set valued names): part of every
    frame comparison, so that a hidden cache or a shared default that changes is seen by the replay"""
    import sys
    out = {}
    for mname, mod in sorted(sys.modules.items()):
        if not mname.startswith('kernpy') or '.generated' in mname or mod is None:
            continue
        for k, v in sorted(vars(mod).items()):
            if isinstance(v, (dict, list, set)) and not k.startswith('__'):
                out[f'{mname}.{k}'] = v
            elif isinstance(v, type) and getattr(v, '__module__', '') == mname:
                for ck, cv in sorted(vars(v).items()):
                    if isinstance(cv, (dict, list, set)) and not ck.startswith('__'):
                        out[f'{mname}.{k}.{ck}'] = cv
                    elif ck == 'NextID':
                        pass
    return out


def deep_state(v, memo=None, depth=0):
    """A comparable picture of everything reachable from v (used for frame replays)."""
    if memo is None:
        memo = {}
    if isinstance(v, (int, str, bool, float, type(None))):
        return v
    if id(v) in memo:
        return ('ref', memo[id(v)])
    memo[id(v)] = len(memo)
    if depth > 60:
        return '...'
    import enum
    if isinstance(v, enum.Enum):
        return ('enum', str(v))
    if isinstance(v, (list, tuple)):
        return [type(v).__name__] + [deep_state(x, memo, depth + 1) for x in v]
    if isinstance(v, (set, frozenset)):
        return ['set'] + sorted(repr(deep_state(x, memo, depth + 1)) for x in v)
    if isinstance(v, dict):
        return ['dict'] + [(repr(deep_state(k, memo, depth + 1)), deep_state(x, memo, depth + 1)) for k, x in v.items()]
    if hasattr(v, '__dict__'):
        return [type(v).__name__] + [(k, deep_state(x, memo, depth + 1)) for k, x in sorted(vars(v).items()) if k != 'id']
    return repr(type(v))


def _shape_guard(e, vals):
    """an AttributeError for an attribute that the class's own constructor sets, on an input object that was built field by field
    by a contract: the contract's input shape is out of date (HarnessError), the code is not wrong"""
    import re
    import inspect
    m = re.search(r"'(\w+)' object has no attribute '(\w+)'", str(e))
    if not m:
        return
    cname, attr = m.group(1), m.group(2)
    seen = set()

    def walk(v, depth):
        if id(v) in seen or depth > 4:
            return None
        seen.add(id(v))
        if type(v).__name__ == cname and not hasattr(v, attr):
            return type(v)
        if isinstance(v, dict):
            items = list(v.values())
        elif isinstance(v, (list, tuple, set)):
            items = list(v)
        elif hasattr(v, '__dict__') and not isinstance(v, type):
            items = list(vars(v).values())
        else:
            return None
        for x in items:
            r = walk(x, depth + 1)
            if r is not None:
                return r
        return None
    cls = walk(vals, 0)
    if cls is None:
        return
    for c in cls.__mro__:
        init = c.__dict__.get('__init__')
        if init is None:
            continue
        try:
            src = inspect.getsource(init)
        except (OSError, TypeError):
            continue
        if re.search(r'self\.' + re.escape(attr) + r'\b\s*(:[^=]+)?=', src):
            raise HarnessError(f'the input shape of the contract lacks attribute {attr!r}, which {c.__name__}.__init__ sets')


def _stub_guard(e):
    """an exception raised by (or about) a stub class of a contract -- the code now uses the stubbed object in a way the stub does not
    know: the contract is out of date (HarnessError), not a verdict about the code"""
    import re
    import sys
    tb = e.__traceback__
    last = None
    while tb is not None:
        last = tb
        tb = tb.tb_next
    if last is not None and os.sep + 'contracts' + os.sep in last.tb_frame.f_code.co_filename and isinstance(e, (AttributeError, TypeError, NameError, KeyError, IndexError)) \
            and last.tb_frame.f_code.co_name not in ('<module>',) and not last.tb_frame.f_code.co_name.startswith(('post_', 'requires', 'raises', 'inputs')):
        raise HarnessError(f'a stub of the contract failed ({type(e).__name__}: {e}): the code uses the stubbed object in a way the stub does not model')
    if isinstance(e, (AttributeError, TypeError)):
        m = re.search(r"'(\w+)' object has no attribute|^(\w+)\.\w+\(\) (?:got|takes|missing)", str(e))
        name = (m.group(1) or m.group(2)) if m else None
        if name:
            for mn, mod in list(sys.modules.items()):
                if mn.startswith('contracts.') and mod is not None and isinstance(getattr(mod, name, None), type) and getattr(mod, name).__module__ == mn:
                    raise HarnessError(f'a stub of the contract does not model this use ({type(e).__name__}: {e})')


class HarnessError(Exception):
    """the native harness itself cannot run (e.g. the loop a step contract names is not in the source any more): never a verdict"""


def native_step(ci: ContractInfo, vals: dict):
    """Native counterpart of Interp.run_step: the body of the named loop, taken from the real source of the target function on every
    call, is compiled into a function of the names in `vals` and run once; `vals` is updated with the locals afterwards."""
    import inspect
    import textwrap
    owner, name, obj = resolve_target(ci.target)
    fn = obj
    raw = inspect.getattr_static(owner, name) if owner is not None else obj
    if isinstance(raw, (classmethod, staticmethod)):
        fn = raw.__func__
    fn = getattr(fn, '__func__', fn)
    fn = inspect.unwrap(fn)
    tree = ast.parse(textwrap.dedent(inspect.getsource(fn)))
    loop = None
    tail = getattr(ci.pycls, 'tail', None)
    header = tail or ci.pycls.step
    for n in ast.walk(tree):
        if isinstance(n, (ast.For, ast.While)) and ast.unparse(n).split('\n')[0].rstrip(':').strip().startswith(header):
            loop = n
            break
    if loop is None:
        raise HarnessError(f'loop {header!r} not found in {ci.target}')
    fnode = next((n for n in ast.walk(tree) if isinstance(n, ast.FunctionDef)), None)
    from .source import continuation_after
    rest = continuation_after(fnode, loop) if (tail and fnode is not None) else None
    if tail and rest is None:
        raise HarnessError(f'tail contract: the loop {header!r} is not at the top level of {ci.target} (nor nested in if blocks only)')

    class Ret(ast.NodeTransformer):
        def visit_FunctionDef(self, node):
            return node

        def visit_Lambda(self, node):
            return node

        def visit_Return(self, node):
            val = node.value if node.value is not None else ast.Constant(None)
            return ast.copy_location(ast.Return(ast.Tuple([ast.Constant('return'), val, ast.Call(ast.Name('locals', ast.Load()), [], [])], ast.Load())), node)
    if tail:
        after = rest
        stop = getattr(ci.pycls, 'cut', None)
        if stop:
            # a segment contract: up to (not including) the later loop it names
            k = next((i for i, st in enumerate(after) if ast.unparse(st).split('\n')[0].rstrip(':').strip().startswith(stop)), None)
            if k is None:
                raise HarnessError(f'segment contract: the loop {stop!r} does not follow {header!r} at the top level of {ci.target}')
            after = after[:k]
    body = [Ret().visit(st) for st in (loop.body if not tail else after)]
    names = [k for k in vals if not k.startswith('_') and k.isidentifier()]
    end = lambda flow: ast.Return(ast.Tuple([ast.Constant(flow), ast.Constant(None), ast.Call(ast.Name('locals', ast.Load()), [], [])], ast.Load()))
    wrapper = ast.For(target=ast.Name('__once__', ast.Store()), iter=ast.Tuple([ast.Constant(0)], ast.Load()), body=body, orelse=[end('next')])
    fdef = ast.FunctionDef(name='__step__', args=ast.arguments(posonlyargs=[], args=[ast.arg(k) for k in names], kwonlyargs=[], kw_defaults=[], defaults=[]),
                           body=[wrapper, end('break')], decorator_list=[], type_params=[])
    mod = ast.Module([fdef], [])
    ast.fix_missing_locations(mod)
    glb = dict(fn.__globals__)
    exec(compile(mod, f'<step of {ci.target}>', 'exec'), glb)
    try:
        flow, value, loc = glb['__step__'](**{k: vals[k] for k in names})
    except NameError as e:        # (UnboundLocalError is a NameError)
        nm = getattr(e, 'name', None)
        if nm is None:
            import re as _re
            m = _re.search(r"variable '(\w+)'|name '(\w+)'", str(e))
            nm = (m.group(1) or m.group(2)) if m else None
        if nm is not None and nm not in names and nm not in glb:
            raise HarnessError(f'the loop body reads the local {nm!r}, which the inputs of the step contract do not provide '
                               f'(the state of the loop has changed: the contract needs an update)')
        raise
    for k, v in loc.items():
        if k != '__once__':
            vals[k] = v
    vals['flow'] = flow
    return value


def call_real(ci: ContractInfo, vals: dict):
    if getattr(ci.pycls, 'step', None) or getattr(ci.pycls, 'tail', None):
        return native_step(ci, vals)
    owner, name, obj = resolve_target(ci.target)
    kwargs = {k: v for k, v in vals.items() if not k.startswith('_')}
    if name == 'setter':
        slf = kwargs.pop('self')
        (value,) = kwargs.values()
        prop_name = ci.target.split('.')[-2]
        setattr(slf, prop_name, value)
        return None
    if 'self' in kwargs:
        slf = kwargs.pop('self')
        if name == '__init__':
            return type(slf).__init__(slf, **kwargs)
        return getattr(slf, name)(**kwargs)
    if 'cls' in kwargs:
        kwargs.pop('cls')
    return obj(**kwargs)


def replay(ci: ContractInfo, ob_kind: str, ob_label: str, model: dict):
    if ob_kind == 'pre':
        return replay_pre(ci, ob_label, model)
    return _replay(ci, ob_kind, ob_label, model)


def replay_pre(ci: ContractInfo, ob_label: str, model: dict):
    """A call-site precondition failed in the proof: run the caller natively with the callee wrapped by its executable
    `requires` (the sidecar-wrapper idiom) and report whether the precondition is really violated; the caller's own
    clauses are evaluated too, so that the record shows the user-visible symptom."""
    from .contract import REGISTRY
    import inspect
    callee_name = ob_label.split('@')[0]
    callee = REGISTRY.get(callee_name)
    info = {'contract': ci.name, 'target': ci.target, 'obligation': f'pre:{ob_label}', 'model': {k: _js(v) for k, v in model.items()}}
    if callee is None or not callee.has('requires'):
        info.update(confirmed=None, reason='callee contract not found')
        return info
    owner, name, obj = resolve_target(callee.target)
    raw = inspect.getattr_static(owner, name)
    fn = raw.__func__ if isinstance(raw, (classmethod, staticmethod)) else raw
    violated = []
    try:
        sig = inspect.signature(fn)
    except (ValueError, TypeError):
        sig = None          # a builtin of the standard library: the clauses see the keywords by name and `args`

    def wrapper(*a, **k):
        try:
            if sig is not None:
                bound = sig.bind(*a, **k)
                bound.apply_defaults()
                arguments = dict(bound.arguments)
            else:
                arguments = dict(k, args=tuple(a), kwargs=dict(k))
            ok = _call_native(callee, 'requires', arguments)
            if not ok:
                violated.append({k2: _show(v2) for k2, v2 in arguments.items()})
        except Exception as e:
            violated.append({'wrapper-error': repr(e)})
        return fn(*a, **k)
    wrapped = classmethod(wrapper) if isinstance(raw, classmethod) else (staticmethod(wrapper) if isinstance(raw, staticmethod) else wrapper)
    setattr(owner, name, wrapped)
    try:
        g = ConcreteFactory(model)
        vals = ci.pycls.inputs(g)
        if g.rejected or (ci.has('requires') and not _call_native(ci, 'requires', vals)):
            info.update(confirmed=None, reason='model outside the input domain')
            return info
        info['arguments'] = {k: _show(v) for k, v in vals.items()}
        g2 = ConcreteFactory(model)
        failed = native_check(ci, g2)
        info['caller_clauses_failing_natively'] = failed
        info['callee_precondition_violations'] = violated[:3]
        info.update(confirmed=bool(violated), clause=f'requires of {callee_name} at the call site')
    except Exception as e:
        info.update(confirmed=None, reason='replay harness error: ' + repr(e))
    finally:
        setattr(owner, name, raw)
    return info


def _replay(ci: ContractInfo, ob_kind: str, ob_label: str, model: dict):
    """Run the real function on the concrete arguments built from `model`; evaluate the failed clause natively.
    Returns a dict with 'confirmed': True/False/None (None = witness not usable)."""
    info = {'contract': ci.name, 'target': ci.target, 'obligation': f'{ob_kind}:{ob_label}', 'model': {k: _js(v) for k, v in model.items()}}
    try:
        g = ConcreteFactory(model)
        vals = ci.pycls.inputs(g)
        if g.rejected:
            info.update(confirmed=None, reason='model outside the input domain (abstraction)')
            return info
        if ci.has('requires') and not _call_native(ci, 'requires', vals):
            info.update(confirmed=None, reason='model violates requires')
            return info
        info['arguments'] = {k: _show(v) for k, v in vals.items()}
        vals0 = dict(vals)      # (a loop-step / tail run rebinds and adds locals in `vals`: the frame is about the objects that existed before)
        before = deep_state({'args': _visible(ci, vals0), 'globals': global_state()})
        old = copy.deepcopy(vals)
        exc = None
        result = None
        try:
            if ci.kind == 'function':
                result = call_real(ci, vals)
            elif ci.kind == 'const':
                result = real_const(ci.const)
        except HarnessError as e:
            info.update(confirmed=None, reason='replay harness error: ' + str(e))
            return info
        except Exception as e:   # the real code raised
            try:
                if isinstance(e, AttributeError):
                    _shape_guard(e, vals)
                _stub_guard(e)
            except HarnessError as h:
                info.update(confirmed=None, reason='replay harness error: ' + str(h))
                return info
            exc = e
        info['observed'] = {'raised': type(exc).__name__ + ': ' + str(exc)[:200]} if exc is not None else {'result': _show(result)}
        table = _call_native(ci, 'raises', vals_for(ci, 'raises', old)) if ci.has('raises') else {}
        values = dict(old)   # clauses see the pre-state arguments through `old`, current ones by name
        values.update(vals)
        values['result'] = result
        values['old'] = old
        base = ob_label.split('#')[0]
        if ob_kind == 'post':
            if exc is not None:
                if type(exc).__name__ not in table:
                    # the witness of the failed clause makes the real code raise an exception the contract does not allow at all:
                    # a violation of the same contract on a concrete input
                    info.update(confirmed=True, clause=f'no uncaught {type(exc).__name__} (the real code raised on the witness of post_{base})')
                    return info
                info.update(confirmed=None, reason='real code raised, post clause not applicable')
                return info
            try:
                ok = _call_native(ci, 'post_' + base, values)
            except SymbolicOnly as e:
                info.update(confirmed=None, reason=f'the clause reads ghost state of the symbolic run ({e}): no native replay')
                return info
            except Exception as e:
                # the clause itself raised on the real result (e.g. it reads a field of a token that is not there): it does not hold
                ok = False
                info['clause_raised'] = f'{type(e).__name__}: {e}'[:300]
            info.update(confirmed=(not ok), clause='post_' + base)
        elif ob_kind == 'exc':
            if base.startswith('no-'):
                want = base[3:]
                must = bool(table.get(want))
                info.update(confirmed=(must and exc is None), clause=f'raises[{want}]')
            else:
                info.update(confirmed=(exc is not None and type(exc).__name__ == base and not table.get(base)), clause=f'raises[{base}]')
        elif ob_kind == 'safe':
            want = base[3:]
            info.update(confirmed=(exc is not None and type(exc).__name__ == want), clause=f'no uncaught {want}')
        elif ob_kind == 'frame':
            after = deep_state({'args': _visible(ci, vals0), 'globals': global_state()})
            info.update(confirmed=(before != after), clause='modifies')
            if before != after:
                info['state_before'] = _trunc(before)
                info['state_after'] = _trunc(after)
        elif ob_kind == 'pre':
            info.update(confirmed=None, reason='call-site precondition: see replay_pre')
        else:
            info.update(confirmed=None, reason=f'no native replay for obligation kind {ob_kind}')
    except Exception as e:
        info.update(confirmed=None, reason='replay harness error: ' + ''.join(traceback.format_exception_only(type(e), e)).strip())
    return info


def vals_for(ci, name, vals):
    return vals


def real_const(qual):
    mod, name = qual.rsplit('.', 1)
    try:
        return getattr(importlib.import_module(mod), name)
    except ImportError:
        mod2, cname = mod.rsplit('.', 1)
        return getattr(getattr(importlib.import_module(mod2), cname), name)


def native_check(ci: ContractInfo, g: ConcreteFactory):
    """Bounded stand-in: run the real code on concrete inputs from g and evaluate every clause natively.
    Returns None if the inputs are outside the domain, else a list of failed obligation ids (kind:label)."""
    vals = ci.pycls.inputs(g)
    if g.rejected:
        return None
    if ci.has('requires') and not _call_native(ci, 'requires', vals):
        return None
    vals0 = dict(vals)
    before = deep_state({'args': _visible(ci, vals0), 'globals': global_state()})
    old = copy.deepcopy(vals)
    exc, result = None, None
    try:
        if ci.kind == 'function':
            result = call_real(ci, vals)
        elif ci.kind == 'const':
            result = real_const(ci.const)
    except HarnessError:
        raise
    except AttributeError as e:
        _shape_guard(e, vals)
        _stub_guard(e)
        exc = e
    except Exception as e:
        _stub_guard(e)
        exc = e
    failed = []
    table = _call_native(ci, 'raises', old) if ci.has('raises') else {}
    values = dict(old)
    values.update(vals)
    values['result'] = result
    values['old'] = old
    if exc is None:
        for en, cond in table.items():
            if cond:
                failed.append(f'exc:no-{en}')
        for name in ci.clauses:
            try:
                ok = _call_native(ci, name, values)
            except SymbolicOnly:
                ok = True       # a clause over ghost state of the symbolic run: not evaluable natively, no verdict
            except Exception as e:
                ok = False
            if not ok:
                failed.append('post:' + name[5:])
    else:
        en = type(exc).__name__
        if en in table:
            if not table[en]:
                failed.append(f'exc:{en}')
        else:
            failed.append(f'safe:no-{en}')
    if ci.kind == 'function':
        allowed = [m for m in getattr(ci.pycls, 'modifies', ()) if not m.endswith('.**')]
        if not allowed and not ci.has('modifies_objs') and deep_state({'args': _visible(ci, vals0), 'globals': global_state()}) != before:
            failed.append('frame:*')
    return failed


def bounded_search(ci: ContractInfo, kind: str, label: str, n: int, rng):
    """Witness search: random inputs from the contract's own input builder; returns a replay record or None."""
    base = label.split('#')[0]
    t_end = time.time() + (25.0 if n <= 3000 else 150.0)        # (contracts whose native inputs are whole documents are slow to sample)
    for _ in range(n):
        if time.time() > t_end:
            break
        g = ConcreteFactory({}, rng=rng, bound=6)
        try:
            failed = native_check(ci, g)
        except Exception:
            continue
        if not failed:
            continue
        hit = [f for f in failed if f == f'{kind}:{base}' or (kind == 'frame' and f.startswith('frame:'))
               or (kind == 'post' and f.startswith('safe:'))]       # (an input on which the real code raises instead of returning)
        if hit:
            info = replay(ci, kind, label, g.used)
            if info.get('confirmed'):
                info['found_by'] = 'bounded witness search'
                return info
    return None


def _call_native(ci: ContractInfo, name, values: dict):
    fn = vars(ci.pycls)[name]
    import inspect
    params = list(inspect.signature(fn).parameters)
    kwargs = {}
    for p in params:
        if p in values:
            kwargs[p] = values[p]
        elif '_' + p in values:
            kwargs[p] = values['_' + p]
    return fn(**kwargs)


def _js(v):
    if isinstance(v, (int, str, bool, type(None))):
        return v
    return repr(v)


def _show(v):
    try:
        if hasattr(v, '__dict__') and not isinstance(v, type):
            return f'{type(v).__name__}({", ".join(f"{k}={_show(x)}" for k, x in list(vars(v).items())[:8])})'
        r = repr(v)
        return r if len(r) < 300 else r[:300] + '...'
    except Exception:
        return f'<{type(v).__name__}>'


def _trunc(x):
    r = repr(x)
    return r if len(r) < 1500 else r[:1500] + '...'


def bounded_standin(ci: ContractInfo, n: int, rng):
    """Bounded stand-in for a function the deductive engine cannot handle: n random inputs from the contract's own input
    builder, all clauses evaluated natively.  Returns (cases_run, first failing record or None)."""
    ran = 0
    if getattr(ci.pycls, 'cut', None) and not getattr(ci.pycls, 'tail', None):
        # (a segment contract -- tail + cut -- is run natively like a tail contract)
        # locals at a cut point cannot be observed natively: the stand-in is the document-level contract named in witness_via
        from .contract import REGISTRY
        wv = getattr(ci.pycls, 'witness_via', '') or ''
        via = REGISTRY.get(wv if isinstance(wv, str) else wv[0])
        return bounded_standin(via, n, rng) if via is not None else (0, None)
    t_end = time.time() + (40.0 if n <= 2000 else 240.0)
    for _ in range(n):
        if time.time() > t_end and ran > 0:
            break
        g = ConcreteFactory({}, rng=rng, bound=6)
        try:
            failed = native_check(ci, g)
        except HarnessError as e:
            return 0, {'harness_error': str(e)}
        except Exception:
            continue
        if failed is None:
            continue
        ran += 1
        if failed:
            kind, label = failed[0].split(':', 1)
            info = replay(ci, kind, label, g.used) if kind != 'frame' else replay(ci, 'frame', label, g.used)
            if info.get('confirmed'):
                info['found_by'] = 'bounded stand-in (function outside the verified subset)'
                info['obligation'] = failed[0]
                return ran, info
    return ran, None
