"""Property-level runner: contracts of a property -> paths -> obligations -> solvers -> replay -> evidence."""
from __future__ import annotations

import glob
import importlib
import json
import multiprocessing as mp
import os
import random
import sys
import time
import traceback
from typing import Dict, List

VERIF = os.path.dirname(os.path.dirname(os.path.abspath(__file__)))
OUT = os.path.join(VERIF, 'out')

S_ASSUMPTIONS = [
    'S-int: Python int == SMT Int; // and % only by positive literal divisors (SMT div/mod == Python floor semantics there)',
    'S-str: str == sequence of code points; run-length/template strings with concrete characters and symbolic counts; upper/lower only on ASCII',
    'S-set/dict: sets of enum members are bit-sets; set iteration order is arbitrary; dict keeps insertion order; literal dicts are read from the ast',
    'S-heap: objects are references with per-object field maps; allocation is fresh; a write to a pre-existing object is a frame obligation',
    'S-exc: raise ends the path with an exceptional exit; builtin failures (KeyError, IndexError, ...) as CPython raises them; exception messages are not modelled',
    'S-eval: left-to-right evaluation, short-circuit and/or, conditional expressions, chained comparisons',
    'S-env: single-threaded, no monkey-patching, module constants initialised by their literal',
    'pyvc itself (ast front end, path enumeration by re-execution, fold/sort/induction rules) and the SMT solvers are trusted',
]


def load_contracts():
    sys.path.insert(0, VERIF)
    for path in sorted(glob.glob(os.path.join(VERIF, 'contracts', 'c[0-9][0-9]*.py'))):
        importlib.import_module('contracts.' + os.path.basename(path)[:-3])
    from pyvc.contract import REGISTRY
    return REGISTRY


_G = {}


def _init_worker():
    pass


def _ctx():
    if 'index' not in _G:
        from pyvc.source import SourceIndex
        from pyvc.contract import Registry
        load_contracts()
        _G['index'] = SourceIndex(extra_roots=[(os.path.join(VERIF, 'contracts'), 'contracts')])
        _G['reg'] = Registry(_G['index'])
    return _G['index'], _G['reg']


TASK_BUDGET = 8      # paths per work unit before the rest of its subtree is handed back for rescheduling


def _task(args):
    """Explore one subtree (decision prefix) of one contract and discharge its obligations. Returns picklable data."""
    name, prop, prefix, timeout_s, both, excludes, max_paths = args
    t0 = time.time()
    try:
        from pyvc.contract import REGISTRY
        from pyvc import verify
        index, reg = _ctx()
        ci = REGISTRY[name]
        rep, obs = verify.explore_prefix(index, reg, ci, prop, prefix, excludes, max_paths, budget=TASK_BUDGET)
        t1 = time.time()
        verify.discharge(rep, obs, os.path.join(OUT, 'smt', prop), timeout_s, both)
        items = []
        for r in rep.results:
            q = r.query
            items.append(dict(full_id=r.full_id, oid=r.ob.oid, kind=r.ob.kind, verdict=q.verdict, expect=q.expect, backend=q.backend,
                              time_s=q.time_s, model={k: v for k, v in q.model.items() if k in q.input_names},
                              note=r.ob.note, line=r.ob.line, func=r.ob.func, smt=q.path, hash=q.hash, by_backend=q.by_backend,
                              raw=(q.raw[:600] if q.verdict != q.expect else '')))
        return dict(name=name, prefix=prefix, paths=rep.paths, infeasible=rep.infeasible, unsupported=rep.unsupported,
                    inlined=sorted(rep.inlined), contract_uses=sorted(rep.contract_uses), items=items, source_hash=rep.source_hash,
                    symex_s=t1 - t0, solve_s=time.time() - t1, error=None, leftover=rep.leftover, args=args)
    except Exception as e:
        return dict(name=name, prefix=prefix, paths=0, infeasible=0, unsupported=[], inlined=[], contract_uses=[], items=[],
                    source_hash='', symex_s=time.time() - t0, solve_s=0, error=traceback.format_exc())


def _btask(args):
    """bounded stand-in: n random inputs of one contract, all clauses natively"""
    name, n, seed = args
    t0 = time.time()
    try:
        from pyvc.contract import REGISTRY, ConcreteFactory
        from pyvc import verify
        load_contracts()
        ci = REGISTRY[name]
        rng = random.Random(seed)
        ran, fails, samples = 0, [], []
        for _ in range(n):
            g = ConcreteFactory({}, rng=rng, bound=6)
            try:
                failed = verify.native_check(ci, g)
            except Exception as e:
                failed = ['harness:' + type(e).__name__ + ':' + str(e)[:200]]
            if failed is None:
                continue
            ran += 1
            if len(samples) < 2:
                samples.append({k: v for k, v in g.used.items()})
            if failed and len(fails) < 5:
                fails.append((failed, dict(g.used)))
        return dict(name=name, ran=ran, fails=fails, samples=samples, wall=time.time() - t0, error=None)
    except Exception:
        return dict(name=name, ran=0, fails=[], samples=[], wall=time.time() - t0, error=traceback.format_exc())


def _split(args):
    """First-level split of a contract's path tree so that big functions spread over the cores."""
    name, prop, excludes = args
    try:
        from pyvc.contract import REGISTRY
        from pyvc import verify
        index, reg = _ctx()
        return name, verify.first_level(index, reg, REGISTRY[name], prop, excludes), None
    except Exception:
        return name, [[]], traceback.format_exc()


def load_baseline():
    path = os.path.join(VERIF, 'baseline_obligations.json')
    if os.path.exists(path):
        return json.load(open(path))
    return None


def load_known():
    path = os.path.join(VERIF, 'known_findings.jsonl')
    out = []
    if os.path.exists(path):
        for line in open(path):
            line = line.strip()
            if line and not line.startswith('#'):
                out.append(json.loads(line))
    return out


def _read_only(ci):
    """declares that nothing visible is written (private state of a worker object, 'x.**', is not visible)"""
    m = getattr(ci.pycls, 'modifies', None)
    return isinstance(m, tuple) and all(x.endswith('.**') for x in m)


def run_property(prop: str, tier: str = 'quick', seed: int = 0, only=None, jobs: int = 16):
    t_start = time.time()
    REG = load_contracts()
    from pyvc import verify
    def selected(ci):
        if prop in ci.props:
            return True
        # C14 (purity of the read-only API): every function contract that declares `modifies = ()` carries frame obligations on
        # each of its heap writes; they are all part of C14
        return prop == 'C14' and ci.kind == 'function' and _read_only(ci) and not ci.assumed and not ci.bounded
    contracts = [ci for ci in REG.values() if selected(ci) and (only is None or ci.name in only) and not ci.assumed and not ci.bounded]
    bounded_cis = [ci for ci in REG.values() if prop in ci.props and (only is None or ci.name in only) and ci.bounded]
    assumed = [ci for ci in REG.values() if prop in ci.props and ci.assumed]
    known = [k for k in load_known() if k.get('property') == prop and k.get('status') == 'known']
    excl: Dict[str, tuple] = {}
    for k in known:
        if k.get('contract') and k.get('exclude'):
            excl[k['contract']] = excl.get(k['contract'], ()) + (k['exclude'],)
    timeout_s = 10.0 if tier == 'quick' else 40.0
    both = tier == 'thorough'
    max_paths = 6000 if tier == 'quick' else 40000
    os.makedirs(os.path.join(OUT, 'smt', prop), exist_ok=True)
    ctx = mp.get_context('fork')
    with ctx.Pool(min(jobs, max(1, len(contracts)))) as pool:
        splits = pool.map(_split, [(ci.name, prop, excl.get(ci.name, ())) for ci in contracts])
    tasks = []
    split_errors = {}
    for name, prefixes, err in splits:
        if err:
            split_errors[name] = err
        for p in prefixes:
            tasks.append((name, prop, p, timeout_s, both, excl.get(name, ()), max_paths))
    # bounded stand-ins by design (document-level contracts on generated scores): samples are split over the pool
    n_samples = int(os.environ.get('PYVC_SAMPLES', '0')) or (160 if tier == 'quick' else 4000)
    btasks = []
    for ci in bounded_cis:
        chunks = 16 if n_samples >= 64 else 1
        for c in range(chunks):
            btasks.append((ci.name, n_samples // chunks, seed * 1000003 + c))
    with ctx.Pool(jobs) as pool:
        # work units hand back the subtrees they did not enter within their path budget: these become new units
        pending = [pool.apply_async(_task, (t,)) for t in tasks]
        results = []
        while pending:
            still = []
            for h in pending:
                if not h.ready():
                    still.append(h)
                    continue
                r = h.get()
                results.append(r)
                for lp in r.get('leftover') or []:
                    a = r['args']
                    still.append(pool.apply_async(_task, ((a[0], a[1], lp) + tuple(a[3:]),)))
            pending = still
            if pending:
                time.sleep(0.02)
        bresults = pool.map(_btask, btasks, chunksize=1) if btasks else []
    return aggregate(prop, tier, seed, contracts, results, split_errors, known, t_start, assumed, bounded_cis, bresults)


def aggregate(prop, tier, seed, contracts, results, split_errors, known, t_start, assumed=(), bounded_cis=(), bresults=()):
    from pyvc import verify
    from pyvc.contract import REGISTRY
    per: Dict[str, dict] = {ci.name: dict(paths=0, infeasible=0, unsupported=[], inlined=set(), uses=set(), items=[], errors=[],
                                            symex_s=0.0, solve_s=0.0, source_hash='') for ci in contracts}
    for r in results:
        p = per[r['name']]
        p['paths'] += r['paths']
        p['infeasible'] += r['infeasible']
        for u in r['unsupported']:
            if u not in p['unsupported']:
                p['unsupported'].append(u)
        p['inlined'] |= set(r['inlined'])
        p['uses'] |= set(r['contract_uses'])
        p['items'] += r['items']
        p['symex_s'] += r['symex_s']
        p['solve_s'] += r['solve_s']
        p['source_hash'] = r['source_hash'] or p['source_hash']
        if r['error']:
            p['errors'].append(r['error'])
    for name, err in split_errors.items():
        per[name]['errors'].append(err)

    # queries both back ends left open during the parallel phase get a second, undisturbed run with three times the budget
    # (verdicts must not flip because 16 workers were competing for the cores)
    from pyvc import smt as _smt
    retried = {}
    for ci in contracts:
        for it in per[ci.name]['items']:
            if it['verdict'] == 'unknown' and it.get('smt') and os.path.exists(it['smt']):
                if it['smt'] not in retried:
                    retried[it['smt']] = _smt.retry_file(it['smt'], 30.0 if tier == 'quick' else 120.0)
                v, backend, model, by = retried[it['smt']]
                if v != 'unknown':
                    it['verdict'], it['backend'], it['by_backend'] = v, backend, dict(by, retried=True)
                    it['model'] = {k: x for k, x in model.items()}
    obligations = discharged = 0
    by_backend = {'z3': 0, 'cvc5': 0}
    solver_time = 0.0
    failures = []      # (contract name, oid, item)
    undecided = []
    crashes = []
    unproved = []
    samples = []
    functions = []
    for ci in contracts:
        p = per[ci.name]
        uniq = {}
        for it in p['items']:
            uniq.setdefault((it['full_id'], it['hash']), it)
        n_ok = 0
        some_cover = any(it['kind'] == 'cover' and it['verdict'] == 'sat' for it in uniq.values())
        for it in uniq.values():
            if it['kind'] == 'cover' and it['verdict'] == 'unsat' and some_cover:
                # this path contradicts the precondition (only the solver saw it): an infeasible path, not a vacuous contract --
                # the precondition is satisfiable on another path
                continue
            obligations += 1
            solver_time += it['time_s']
            if it['verdict'] == it['expect']:
                discharged += 1
                n_ok += 1
                if it['backend'] in by_backend:
                    by_backend[it['backend']] += 1
            elif it['verdict'] == 'unknown':
                undecided.append((ci.name, it))
            else:
                failures.append((ci.name, it))
        if p['errors']:
            crashes.append((ci.name, p['errors'][0]))
        if p['unsupported']:
            unproved.append({'contract': ci.name, 'function': ci.target or ci.const or ci.name, 'reason': p['unsupported'][:3]})
        if len(uniq) == 0 and not p['errors']:
            crashes.append((ci.name, 'zero obligations generated (vacuity guard)'))
        form = ('loop-step' if getattr(ci.pycls, 'step', None) else 'segment' if (getattr(ci.pycls, 'tail', None) and getattr(ci.pycls, 'cut', None)) else 'tail' if getattr(ci.pycls, 'tail', None) else 'cut-point' if getattr(ci.pycls, 'cut', None)
                else 'history-lemma' if (ci.kind == 'lemma' and getattr(ci.pycls, 'inline', None)) else ci.kind)
        functions.append({'contract': ci.name, 'target': ci.target or ci.const or '(lemma)', 'kind': ci.kind, 'form': form,
                          'loop': getattr(ci.pycls, 'step', None) or getattr(ci.pycls, 'cut', None) or getattr(ci.pycls, 'tail', None), 'paths': p['paths'],
                          'obligations': len(uniq), 'discharged': n_ok, 'inlined': sorted(p['inlined']),
                          'callee_contracts_used': sorted(p['uses']), 'source_hash': p['source_hash']})
        for it in list(uniq.values())[:2]:
            if len(samples) < 12:
                samples.append({'obligation': it['full_id'], 'verdict': it['verdict'], 'backend': it['backend'], 'smt2': os.path.relpath(it['smt'], VERIF) if it['smt'] else None})

    # ---- known findings: replay the recorded witnesses -------------------------------------------------------------
    known_lines = []
    for k in known:
        ci = REGISTRY.get(k.get('contract', ''))
        if ci is None:
            continue
        kind, label = k['obligation'].split(':', 1)
        info = verify.replay(ci, kind, label, k.get('witness', {}))
        if info.get('confirmed'):
            known_lines.append(f"KNOWN-FINDING: property={prop} {k['what']}")
        else:
            known_lines.append(f"NOTE: known finding no longer reproduces (property={prop} {k['what']}): {info.get('reason', 'clause holds on the recorded witness')}")

    # ---- failures -> replay ---------------------------------------------------------------------------------------
    violations = []
    os.makedirs(os.path.join(OUT, 'replays'), exist_ok=True)
    grouped: Dict[tuple, list] = {}
    for name, it in failures:
        grouped.setdefault((name, it['oid'].split('#')[0]), []).append(it)
    rng = random.Random(seed)
    baseline = load_baseline()
    unproved_names = {u['contract'] for u in unproved}
    for (name, oid), its in sorted(grouped.items()):
        ci = REGISTRY[name]
        kind, label = oid.split(':', 1)
        if kind == 'cover':
            crashes.append((name, f'vacuity: requires of {name} is unsatisfiable ({oid})'))
            continue
        confirmed = None
        tried = []
        for it in its[:8]:
            info = verify.replay(ci, kind, label, it['model'])
            info['solver'] = {'verdict': it['verdict'], 'backend': it['backend'], 'smt2': it['smt'], 'note': it['note']}
            tried.append(info)
            if info.get('confirmed'):
                confirmed = info
                break
        if confirmed is None:
            # witness search with the bounded stand-in (executable contract + random inputs)
            w = verify.bounded_search(ci, kind, label, n=3000 if tier == 'quick' else 30000, rng=rng)
            if w is not None:
                w['solver'] = tried[0]['solver'] if tried else {}
                confirmed = w
        if confirmed is None and getattr(ci.pycls, 'witness_via', None):
            # the obligation is about locals at a cut point: a failing input is searched through the document-level contract
            wv = ci.pycls.witness_via
            for via_name in ((wv,) if isinstance(wv, str) else tuple(wv)):
                via = REGISTRY[via_name]
                ran, hit = verify.bounded_standin(via, 600 if tier == 'quick' else 6000, rng)
                if hit is not None and 'harness_error' not in hit:
                    hit['solver'] = tried[0]['solver'] if tried else {}
                    hit['found_by'] = f'document-level contract {via.name} (witness for the cut-point obligation {oid})'
                    confirmed = hit
                    break
        if confirmed is None:
            if name in unproved_names:
                # the function is (partly) outside the subset: its bounded stand-in decides, an unconfirmed abstract
                # counter-model of another path is not a verdict
                continue
            if baseline is not None and f'{prop}/{name}/{oid}' not in baseline.get(prop, []):
                # never discharged on the pinned tree either: an engine limitation, not a regression (DESIGN 5.2)
                undecided.append((name, dict(its[0], by_backend={'note': 'fails without a concrete input and is not in baseline_obligations.json'})))
                continue
        rec = confirmed or (tried[0] if tried else {'contract': name, 'obligation': oid})
        rec['property'] = prop
        rec['failed_obligation'] = f'{prop}/{name}/{oid}'
        rec['failing_paths'] = len(its)
        rpath = os.path.join(OUT, 'replays', f'{prop}-{name}-{oid.replace(":", "_").replace("/", "_")}.json')
        with open(rpath, 'w') as f:
            json.dump(rec, f, indent=1, default=str)
        suffix = '' if confirmed is not None else ' no-failing-input-found'
        violations.append((f'VIOLATION property={prop} replay={rpath}{suffix}', rec))

    # ---- bounded stand-ins for functions that are outside the verified subset (labelled bounded, never counted as proved)
    bounded = []
    known_keys = {(k.get('contract'), k.get('obligation')) for k in known}
    for ci in bounded_cis:
        rs = [r for r in bresults if r['name'] == ci.name]
        ran = sum(r['ran'] for r in rs)
        errs = [r['error'] for r in rs if r['error']]
        if errs:
            crashes.append((ci.name, errs[0]))
        fails = [f for r in rs for f in r['fails']]
        entry = {'contract': ci.name, 'function': ci.target or '(document-level clause)', 'bound': ci.bounded, 'cases': ran,
                 'failed': False, 'samples': [s2 for r in rs for s2 in r['samples']][:2]}
        if ran == 0 and not errs:
            crashes.append((ci.name, 'bounded stand-in ran zero cases (vacuity guard)'))
        reported = set()
        for failed, used in fails:
            for fid in failed:
                if fid in reported:
                    continue
                reported.add(fid)
                if fid.startswith('harness:'):
                    crashes.append((ci.name, fid))
                    continue
                kind, label = fid.split(':', 1)
                info = verify.replay(ci, kind, label, used)
                if not info.get('confirmed'):
                    continue
                if (ci.name, fid) in known_keys:
                    continue       # a listed known finding: reported through its own recorded witness above
                entry['failed'] = True
                info.update(property=prop, failed_obligation=f'{prop}/{ci.name}/{fid}', found_by='bounded stand-in (document-level contract)')
                rpath = os.path.join(OUT, 'replays', f"{prop}-{ci.name}-{fid.replace(':', '_')}.json")
                with open(rpath, 'w') as f:
                    json.dump(info, f, indent=1, default=str)
                violations.append((f'VIOLATION property={prop} replay={rpath}', info))
        bounded.append(entry)
    for u in unproved:
        ci = REGISTRY[u['contract']]
        n = 2000 if tier == 'quick' else 20000
        ran, hit = verify.bounded_standin(ci, n, rng)
        if hit is not None and 'harness_error' in hit:
            crashes.append((ci.name, 'the bounded stand-in cannot run: ' + hit['harness_error']))
            continue
        bounded.append({'contract': ci.name, 'function': ci.target or ci.const or ci.name, 'bound': f'{n} random inputs from the contract input builder (sequence lengths <= 4, integers in [-6, 6])', 'cases': ran,
                        'failed': bool(hit)})
        if hit is not None:
            hit['property'] = prop
            hit['failed_obligation'] = f"{prop}/{ci.name}/{hit['obligation']}"
            rpath = os.path.join(OUT, 'replays', f"{prop}-{ci.name}-bounded.json")
            with open(rpath, 'w') as f:
                json.dump(hit, f, indent=1, default=str)
            violations.append((f'VIOLATION property={prop} replay={rpath}', hit))

    wall = time.time() - t_start
    level = 'proof' if (not unproved and not undecided and not bounded_cis and discharged == obligations and obligations > 0) else 'other'
    trusted = sorted({a for ci in contracts for a in getattr(ci.pycls, 'assumes', ())}
                     | {f'assumed contract {ci.name} on {ci.target}: {ci.assumed}' for ci in assumed})
    coverage = {
        'obligations': obligations,
        'discharged': discharged,
        'checker_cmd': f'./check {prop} --tier {tier}',
        'trusted_base': trusted + ['z3 5.1.0 (z3-new, child process)', 'cvc5 1.0.3 (child process, takes z3 unknowns)', 'pyvc front end and rules'],
        'functions_under_contract': functions,
        'by_backend': by_backend,
        'solver_time_s': round(solver_time, 2),
        'samples': samples,
        'unproved_functions': unproved,
        'bounded': bounded,
        'undecided': [f"{n}/{it['oid']}" for n, it in undecided][:20],
        'known_findings_reproduced': [l for l in known_lines if l.startswith('KNOWN-FINDING')],
        'violations_reported': [v[0] for v in violations],
    }
    if level != 'proof':
        coverage['evaluations'] = sum(b['cases'] for b in bounded)
        coverage['explanation'] = ((f'deductive part: {discharged}/{obligations} obligations discharged; bounded part (never counted as proved): '
                                    + '; '.join(f"{b['contract']} on {b['cases']} cases" for b in bounded) + '. ') if bounded_cis else '') + ('not every deciding obligation was discharged deductively in this run: '
                                   + '; '.join([f"{u['contract']}: out of subset ({u['reason'][0]})" for u in unproved]
                                               + [f'{n}/{it["oid"]}: solver unknown' for n, it in undecided[:5]]
                                               + ([f'{obligations - discharged} obligations failed'] if failures else [])))
    evidence = {
        'property_id': prop, 'tier': tier, 'seed': seed, 'level': level, 'coverage': coverage,
        'assumptions': S_ASSUMPTIONS + trusted, 'wall_s': round(wall, 2), 'violations': len(violations),
    }
    discharged_ids = sorted({f"{prop}/{ci.name}/{it['oid'].split('#')[0]}" for ci in contracts for it in per[ci.name]['items']
                             if it['verdict'] == it['expect']}
                            - {f"{prop}/{n}/{it['oid'].split('#')[0]}" for n, it in failures})
    return dict(discharged_ids=discharged_ids, evidence=evidence, violations=violations, known_lines=known_lines, undecided=undecided, crashes=crashes,
                unproved=unproved, per=per)
