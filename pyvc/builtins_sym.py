"""Semantics of the Python builtins and builtin-type methods that occur in the verified subset."""
from __future__ import annotations

import os
import ast
import z3

from .values import (Unsupported, EnumVal, SEnum, SSet, GList, SStr, SObj, ExcVal, BuiltinExcClass, Closure, NativeFn, XList, Spread,
                     BoundMethod, str_concat, str_len, str_map_chars, str_count, nonneg, to_z3_string)
from .source import ClassInfo, FuncInfo


def call_builtin(I, name, args, kwargs, env):
    from .interp import simp, zint, zbool, is_sym, is_int_sym, is_bool_sym, _and, _or, _not, _intlike
    from .seq import SSeq
    if name == 'len':
        (x,) = args
        if isinstance(x, (list, tuple, dict, set, frozenset, str, range)):
            return len(x)
        if isinstance(x, SStr):
            return simp(zint(str_len(x)))
        if isinstance(x, SSet):
            if x.kind != 'set':
                raise Unsupported('len of a symbolic list/tuple (only its set image is modelled)')
            if x.bad is not False and I.feasible(zbool(x.bad)):
                raise Unsupported('len of a collection with non-member content')
            return simp(z3.Sum([z3.If(zbool(b), 1, 0) for b in x.bits.values() if b is not False] or [z3.IntVal(0)]))
        if isinstance(x, GList):
            return simp(z3.Sum([z3.If(zbool(g), 1, 0) for g, _ in x.items] or [z3.IntVal(0)]))
        if isinstance(x, SSeq):
            return I.pipes.observable(x, 'len')
        if isinstance(x, XList):
            if I.recording is not None:
                I.read_lists.append(x)
            total = 0
            for kind, seg in x.segments():
                n = I.pipes.observable(seg, 'len') if kind == 'pipe' else len(seg)
                total = (total + n) if isinstance(total, int) and isinstance(n, int) else simp(zint(total) + zint(n))
            return total
        if isinstance(x, SObj):
            m = x.cls.find_method('__len__')
            if m is not None:
                return I.call_function(m, [x], {})
        I.raise_py('TypeError')
    if name == 'isinstance':
        v, t = args
        types = list(t) if isinstance(t, tuple) and not (t and t[0] == 'builtin') else [t]
        acc = False
        for ty in types:
            acc = _or(acc, isinstance_one(I, v, ty))
        return acc
    if name == 'issubclass':
        a, b = args
        if isinstance(a, ClassInfo) and isinstance(b, ClassInfo):
            return a.is_subclass_of(b)
        raise Unsupported('issubclass')
    if name == 'set' or name == 'frozenset':
        if not args:
            return set()
        (x,) = args
        if isinstance(x, SSet):
            r = x.copy()
            r.kind = 'set'
            return r
        if isinstance(x, GList):
            return I.set_from_guarded(x.items)
        if isinstance(x, BuiltinMethodResultView):
            x = x.items
        return I.make_set(I.iterate(x))
    if name == 'list':
        if not args:
            return []
        (x,) = args
        if isinstance(x, GList):
            return x
        if isinstance(x, SSeq):
            return x.with_stage('filter', lambda v: True)      # a new list object with the same elements (`is` must not hold)
        if isinstance(x, XList):
            return XList(x.base, x.items, False)
        if isinstance(x, SStr) and not x.is_concrete():
            return x        # the character list of a run-length string (consumed by [0], ''.join, len)
        return list(I.iterate(x))
    if name == 'tuple':
        if not args:
            return ()
        return tuple(I.iterate(args[0]))
    if name == 'dict':
        if not args and not kwargs:
            return {}
        if args and isinstance(args[0], dict):
            d = dict(args[0])
            d.update(kwargs)
            return d
        raise Unsupported('dict()')
    if name in ('any', 'all'):
        (x,) = args
        if isinstance(x, XList) and (x.base is not None or x.has_spread()):
            acc = (name == 'all')
            for kind, seg in x.segments():
                parts = [call_builtin(I, name, [seg], {}, env)] if kind == 'pipe' else [I.truth(v) for v in seg]
                for t in parts:
                    acc = _and(acc, t) if name == 'all' else _or(acc, t)
            return acc
        if isinstance(x, SSeq):
            # over a symbolic sequence: any = some element is true (the filtered pipe is not empty); all = no element is false
            from .loops import _pointwise
            if name == 'any':
                return I.pipes.observable(x.with_stage('filter', _pointwise(I, lambda v: I.truth(v))), 'ne')
            return _not(I.pipes.observable(x.with_stage('filter', _pointwise(I, lambda v: _not(I.truth(v)))), 'ne'))
        items = I.iterate_guarded(x)
        if name == 'any':
            acc = False
            for g, v in items:
                acc = _or(acc, _and(g, I.truth(v)))
            return acc
        acc = True
        for g, v in items:
            acc = _and(acc, _or(_not(g), I.truth(v)))
        return acc
    if name == 'sorted':
        return I.loops.sorted_(I, args, kwargs)
    if name == 'str':
        if not args:
            return ''
        return I.to_str(args[0])
    if name == 'repr':
        raise Unsupported('repr')
    if name == 'int':
        (x,) = args
        if isinstance(x, bool):
            return int(x)
        if isinstance(x, int) or is_int_sym(x):
            return x
        if isinstance(x, str):
            try:
                return int(x)
            except ValueError:
                I.raise_py('ValueError')
        if isinstance(x, SStr):
            # A-int-str: int(str(n)) == n
            if len(x.parts) == 1 and x.parts[0][0] == 'int':
                return x.parts[0][1]
            raise Unsupported('int() of a symbolic string that is not str(int)')
        raise Unsupported('int()')
    if name == 'bool':
        return I.truth(args[0]) if args else False
    if name == 'abs':
        (x,) = args
        if isinstance(x, int):
            return abs(x)
        return simp(z3.If(zint(x) >= 0, zint(x), -zint(x)))
    if name in ('max', 'min'):
        xs = args if len(args) > 1 else I.iterate(args[0])
        if not xs:
            I.raise_py('ValueError')
        if all(isinstance(x, int) for x in xs):
            return max(xs) if name == 'max' else min(xs)
        acc = zint(xs[0])
        for x in xs[1:]:
            x = zint(x)
            acc = z3.If(x > acc, x, acc) if name == 'max' else z3.If(x < acc, x, acc)
        return simp(acc)
    if name == 'sum':
        x = args[0]
        start = args[1] if len(args) > 1 else 0
        if isinstance(x, XList) and (x.base is not None or x.has_spread()):
            acc = start
            for kind, seg in x.segments():
                part = I.loops.seq_sum(I, seg, 0) if kind == 'pipe' else call_builtin(I, 'sum', [list(seg)], {}, env)
                acc = I.binop(ast.Add(), acc, part)
            return acc
        if isinstance(x, SSeq):
            return I.loops.seq_sum(I, x, start)
        items = I.iterate_guarded(x)
        acc = start
        for g, v in items:
            if g is True:
                acc = I.binop(ast.Add(), acc, v)
            else:
                acc = simp(zint(acc) + z3.If(zbool(g), zint(v), 0))
        return acc
    if name == 'range':
        if all(isinstance(a, int) for a in args):
            return range(*args)
        if len(args) == 2 and all(_intlike(a) for a in args):
            return SRange(args[0], args[1])
        return I.loops.sym_range(I, args)
    if name == 'enumerate':
        x = args[0]
        start = args[1] if len(args) > 1 else kwargs.get('start', 0)
        if isinstance(x, XList) and x.base is not None and not x.items:
            x = x.base
        if isinstance(x, SSeq):
            return I.loops.seq_enumerate(I, x, start)
        return [(i + start, v) for i, v in enumerate(I.iterate(x))]
    if name == 'reversed':
        x = args[0]
        if isinstance(x, XList) and x.base is not None and not x.items:
            x = x.base
        if isinstance(x, SSeq):
            return I.loops.seq_reversed(I, x)
        return list(reversed(I.iterate(x)))
    if name == 'zip':
        lists = [I.iterate(a) for a in args]
        if kwargs.get('strict') and len(set(len(l) for l in lists)) > 1:
            I.raise_py('ValueError')
        return [tuple(t) for t in zip(*lists)]
    if name == 'getattr':
        obj, attr = args[0], args[1]
        if not isinstance(attr, str):
            raise Unsupported('getattr with non-literal name')
        if len(args) == 3:
            from .interp import PyRaise
            if obj is None:
                return args[2]
            try:
                return I.get_attr(obj, attr)
            except PyRaise as e:
                if e.exc_name == 'AttributeError':
                    return args[2]
                raise
        return I.get_attr(obj, attr)
    if name == 'setattr':
        obj, attr, val = args
        if not isinstance(attr, str):
            raise Unsupported('setattr with a non-literal name')
        I.set_attr(obj, attr, val)
        return None
    if name == 'hasattr':
        from .interp import PyRaise
        try:
            I.get_attr(args[0], args[1])
            return True
        except PyRaise as e:
            if e.exc_name == 'AttributeError':
                return False
            raise
    if name == 'print':
        return None   # dropped by extraction (DESIGN 2.2)
    if name == 'open':
        return I.builtin_open(args, kwargs)
    if name == 'type':
        (x,) = args
        if isinstance(x, SObj) and getattr(x, 'cls_alt', None):
            raise Unsupported('type() of an object whose class is symbolic')
        if isinstance(x, SObj):
            return x.cls
        for pyt, nm in ((type(None), 'NoneType'), (bool, 'bool'), (int, 'int'), (str, 'str'), (list, 'list'), (dict, 'dict'), (tuple, 'tuple'), (set, 'set')):
            if isinstance(x, pyt):
                return BuiltinExcClass(nm, [nm])      # a built-in class known by its name only
        if isinstance(x, SStr):
            return BuiltinExcClass('str', ['str'])
        raise Unsupported('type()')
    if name == 'filter':
        fn, xs = args
        if (isinstance(xs, SStr) and not xs.is_concrete()) or isinstance(xs, SSeq):
            return I.loops.filter_(I, fn, xs)
        out = []
        for x in I.iterate(xs):
            t = I.truth(I.call(fn, [x], {}))
            if not isinstance(t, bool):
                raise Unsupported('filter with symbolic predicate')
            if t:
                out.append(x)
        return out
    if name == 'map':
        fn, xs = args
        return [I.call(fn, [x], {}) for x in I.iterate(xs)]
    if name == 'iter':
        if isinstance(args[0], SRange):
            return SRangeIter(args[0].lo, args[0].hi)
        return IterVal(I.iterate(args[0]))
    if name == 'next':
        it = args[0]
        if isinstance(it, SRangeIter):
            if I.branch(simp(zint(it.next) < zint(it.hi))):
                v = it.next
                it.next = simp(zint(it.next) + 1)
                return v
            if len(args) > 1:
                return args[1]
            I.raise_py('StopIteration')
        if isinstance(it, IterVal):
            if it.pos < len(it.items):
                it.pos += 1
                return it.items[it.pos - 1]
            if len(args) > 1:
                return args[1]
            I.raise_py('StopIteration')
        raise Unsupported('next()')
    if name == 'hash':
        raise Unsupported('hash')
    if name == 'NotImplemented':
        raise Unsupported('NotImplemented')
    if name == 'object':
        raise Unsupported('object()')
    if name == 'float':
        raise Unsupported('float')
    raise Unsupported(f'builtin {name}')


class IterVal:
    def __init__(self, items):
        self.items, self.pos = items, 0


class SRange:
    """range(lo, hi) with symbolic bounds (step 1): known through iter / next / len only"""
    def __init__(self, lo, hi):
        self.lo, self.hi = lo, hi


class SRangeIter:
    """an iterator object over a symbolic range: its own position, independent of every other iterator"""
    def __init__(self, lo, hi):
        self.next, self.hi = lo, hi


class BuiltinMethodResultView:
    def __init__(self, items):
        self.items = items


def isinstance_one(I, v, ty):
    from .interp import is_int_sym, is_bool_sym
    from .seq import SSeq
    if isinstance(ty, tuple) and ty and ty[0] == 'builtin':
        n = ty[1]
        if n == 'int':
            return (isinstance(v, int)) or is_int_sym(v) or is_bool_sym(v)
        if n == 'str':
            return isinstance(v, (str, SStr))
        if n == 'bool':
            return isinstance(v, bool) or is_bool_sym(v)
        if n == 'list':
            return isinstance(v, (list, GList, XList)) or (isinstance(v, SSet) and v.kind == 'list') or (isinstance(v, SSeq) and v.kind == 'list')
        if n == 'tuple':
            return isinstance(v, tuple) or (isinstance(v, SSet) and v.kind == 'tuple') or (isinstance(v, SSeq) and v.kind == 'tuple')
        if n == 'set':
            return isinstance(v, (set,)) or (isinstance(v, SSet) and v.kind == 'set')
        if n == 'dict':
            return isinstance(v, dict)
        if n == 'float':
            return False
        raise Unsupported(f'isinstance against builtin {n}')
    from .interp import BAD_ELEM, Opaque
    if v is BAD_ELEM:
        return False
    if isinstance(v, Opaque):
        key = ('isinstance', getattr(ty, 'qualname', repr(ty)))
        if key not in v.attrs:
            v.attrs[key] = I.fresh(f'isinstance({v.tag})', 'bool')
        return v.attrs[key]
    if isinstance(ty, ClassInfo):
        if isinstance(v, SObj) and getattr(v, 'cls_alt', None):
            # an object whose class is one of several (which one: an unknown of the element): isinstance is the disjunction
            from .interp import _or
            acc = False
            for c, guard in v.cls_alt:
                if c.is_subclass_of(ty):
                    acc = _or(acc, guard)
            return acc
        if isinstance(v, SObj):
            return v.cls.is_subclass_of(ty)
        if isinstance(v, (EnumVal, SEnum)):
            return v.cls.qualname == ty.qualname
        return False
    if isinstance(ty, BuiltinExcClass):
        if isinstance(v, ExcVal):
            from .values import BUILTIN_EXCEPTIONS
            return ty.name in BUILTIN_EXCEPTIONS.get(v.name, [v.name])
        if isinstance(v, SObj):
            return ty.name in v.cls.base_name_closure()
        return False
    raise Unsupported(f'isinstance against {ty!r}')


# ----------------------------------------------------------------------------------------------------------- methods
def call_method(I, recv, name, args, kwargs):
    from .interp import simp, zint, zbool, is_sym, _and, _or, _not
    from .seq import SSeq
    if isinstance(recv, XList):
        if name == 'append':
            if I.recording is not None:
                # inside the per-element evaluation of an effect loop: the append is recorded, the loop rule splices the whole
                # sequence of appended values in afterwards
                I.recording.append((recv, args[0], True))
                return None
            I.note_write(recv, 'list.append')
            recv.items.append(args[0])
            return None
        if I.recording is not None:
            raise Unsupported(f'list.{name} inside a loop over a symbolic sequence')
        if name == 'extend':
            I.note_write(recv, 'list.extend')
            a = args[0]
            if isinstance(a, SSeq):
                recv.items.append(Spread(a))
            elif isinstance(a, XList):
                recv.items.extend(([Spread(a.base)] if a.base is not None else []) + list(a.items))
            else:
                recv.items.extend(I.iterate(a))
            return None
        if name == 'copy':
            return XList(recv.base, recv.items, False)
        if name == 'pop' and not args and recv.items and not isinstance(recv.items[-1], Spread):
            I.note_write(recv, 'list.pop')
            return recv.items.pop()
        raise Unsupported(f'method {name} on a symbolic list')
    if isinstance(recv, SSeq):
        return I.loops.seq_method(I, recv, name, args, kwargs)
    if isinstance(recv, (str, SStr)):
        return str_method(I, recv, name, args, kwargs)
    if isinstance(recv, list):
        if I.recording is not None and name in ('append', 'extend', 'insert', 'pop', 'remove', 'clear', 'sort', 'reverse') \
                and id(recv) not in I.body_lists:
            # a list that exists outside the loop body would be changed once per element: only lists under the effect-loop rule
            # (turned into symbolic lists before the body runs) may be appended to
            raise Unsupported(f'list.{name} on an outer list inside a loop over a symbolic sequence')
        if name == 'append':
            I.note_write(recv, 'list.append')
            recv.append(args[0])
            return None
        if name == 'extend':
            I.note_write(recv, 'list.extend')
            recv.extend(I.iterate(args[0]))
            return None
        if name == 'insert':
            I.note_write(recv, 'list.insert')
            if not isinstance(args[0], int):
                raise Unsupported('insert at symbolic index')
            recv.insert(args[0], args[1])
            return None
        if name == 'pop':
            I.note_write(recv, 'list.pop')
            if not recv:
                I.raise_py('IndexError')
            if args and not isinstance(args[0], int):
                raise Unsupported('pop at symbolic index')
            return recv.pop(*args)
        if name == 'index':
            for i, x in enumerate(recv):
                t = I.equals(x, args[0])
                if not isinstance(t, bool):
                    raise Unsupported('index with symbolic comparison')
                if t:
                    return i
            I.raise_py('ValueError')
        if name == 'copy':
            return list(recv)
        if name == 'clear':
            I.note_write(recv, 'list.clear')
            recv.clear()
            return None
        if name == 'sort':
            raise Unsupported('list.sort')
        if name == 'count':
            acc = 0
            for x in recv:
                t = I.equals(x, args[0])
                acc = simp(zint(acc) + z3.If(zbool(t), 1, 0)) if not isinstance(t, bool) else (acc + (1 if t else 0))
            return acc
    if isinstance(recv, tuple):
        if name == 'index':
            return recv.index(args[0])
        if name == 'count':
            return recv.count(args[0])
    if isinstance(recv, dict):
        if name == 'keys':
            return list(recv.keys())
        if name == 'values':
            return list(recv.values())
        if name == 'items':
            return [(k, v) for k, v in recv.items()]
        if name == 'get':
            return I.dict_get(recv, args[0], args[1] if len(args) > 1 else kwargs.get('default'), False)
        if name == 'update':
            I.note_write(recv, 'dict.update')
            recv.update(args[0])
            return None
        if name == 'pop':
            I.note_write(recv, 'dict.pop')
            if args[0] in recv:
                return recv.pop(args[0])
            if len(args) > 1:
                return args[1]
            I.raise_py('KeyError')
        if name == 'copy':
            return dict(recv)
        if name == 'setdefault':
            if args[0] not in recv:
                I.note_write(recv, 'dict.setdefault')
                recv[args[0]] = args[1] if len(args) > 1 else None
            return recv[args[0]]
        if name == 'clear':
            I.note_write(recv, 'dict.clear')
            recv.clear()
            return None
    if isinstance(recv, (set, frozenset, SSet)):
        if name in ('union',):
            r = recv
            for a in args:
                r = I.set_op('union', r, a if isinstance(a, (set, frozenset, SSet)) else I.make_set(I.iterate(a)))
            return r
        if name == 'intersection':
            r = recv
            for a in args:
                r = I.set_op('inter', r, a)
            return r
        if name == 'difference':
            r = recv
            for a in args:
                r = I.set_op('diff', r, a)
            return r
        if name == 'copy':
            return set(recv) if isinstance(recv, (set, frozenset)) else recv.copy()
        if name == 'issubset':
            d = I.set_op('diff', recv, args[0])
            return _not(I.truth(d))
        if name == 'issuperset':
            d = I.set_op('diff', args[0] if isinstance(args[0], (set, frozenset, SSet)) else I.make_set(I.iterate(args[0])), recv)
            return _not(I.truth(d))
        if name == 'isdisjoint':
            d = I.set_op('inter', recv, args[0] if isinstance(args[0], (set, frozenset, SSet)) else I.make_set(I.iterate(args[0])))
            return _not(I.truth(d))
        if name in ('update', 'add', 'discard', 'remove', 'clear'):
            I.note_write(recv, f'set.{name}')
            if isinstance(recv, set):
                if name == 'update':
                    for other in args:
                        if isinstance(other, SSet):
                            raise Unsupported('concrete set updated with symbolic set (use a fresh symbolic set)')
                        recv.update(I.iterate(other) if not isinstance(other, (set, frozenset)) else other)
                elif name == 'add':
                    if isinstance(args[0], SEnum) or is_sym(args[0]):
                        raise Unsupported('add symbolic element to concrete set')
                    recv.add(args[0])
                elif name == 'discard':
                    recv.discard(args[0])
                elif name == 'remove':
                    if args[0] not in recv:
                        I.raise_py('KeyError')
                    recv.remove(args[0])
                else:
                    recv.clear()
                return None
            if name == 'update':
                for a in args:
                    other = I.to_sset(a, recv.cls)
                    for m in recv.bits:
                        recv.bits[m] = _or(recv.bits[m], other.bits[m])
                return None
            if name == 'add':
                x = args[0]
                for m in recv.bits:
                    c = (x is m) if isinstance(x, EnumVal) else simp(x.code == m.index)
                    recv.bits[m] = _or(recv.bits[m], c)
                return None
            raise Unsupported(f'SSet.{name}')
    raise Unsupported(f'method {name} on {type(recv).__name__}')


ASCII_UP = {chr(c): chr(c).upper() for c in range(128)}
ASCII_LO = {chr(c): chr(c).lower() for c in range(128)}


def _ascii_only(s):
    for p in SStr.of(s).parts:
        if p[0] in ('lit', 'run'):
            if any(ord(c) > 127 for c in p[1]):
                raise Unsupported('case mapping of a non-ASCII character')


def str_method(I, s, name, args, kwargs):
    from .interp import simp, zint, zbool, _and, _or, _not, is_sym
    conc = s if isinstance(s, str) else s.concrete()
    if conc is not None and all(isinstance(a, (str, int, type(None), tuple, list)) for a in args):
        if name in ('upper', 'lower', 'strip', 'lstrip', 'rstrip', 'startswith', 'endswith', 'replace', 'split', 'islower',
                    'isupper', 'isdigit', 'isnumeric', 'isalpha', 'count', 'index', 'find', 'join', 'splitlines',
                    'format', 'title', 'capitalize', 'isspace'):
            if name == 'join':
                return str_join(I, conc, args[0])
            try:
                return getattr(conc, name)(*args, **kwargs)
            except ValueError:
                I.raise_py('ValueError')
    S = SStr.of(s)
    if name == 'join':
        return str_join(I, s, args[0])
    if name == 'upper':
        _ascii_only(S)
        return str_map_chars(S, lambda c: c.upper())
    if name == 'lower':
        _ascii_only(S)
        return str_map_chars(S, lambda c: c.lower())
    if name == 'replace':
        old, new = args[0], args[1]
        if len(args) > 2:
            raise Unsupported('replace with count')
        if isinstance(old, str) and isinstance(new, str) and len(old) == 1 and len(new) <= 1 and S.only_runs() and not S.is_concrete():
            return str_map_chars(S, lambda c: new if c == old else c)
        return I.loops.str_replace(I, S, old, new)
    if name == 'count':
        return simp(zint(str_count(S, args[0])))
    if name == 'islower' or name == 'isupper':
        want_lower = name == 'islower'
        good, bad = False, False
        for ch, n in S.units():
            pos = True if isinstance(n, int) and n > 0 else (False if isinstance(n, int) else simp(n > 0))
            if ch.islower():
                good, bad = (_or(good, pos), bad) if want_lower else (good, _or(bad, pos))
            elif ch.isupper():
                good, bad = (good, _or(bad, pos)) if want_lower else (_or(good, pos), bad)
        return _and(good, _not(bad))
    if name == 'strip' and not args:
        # exact when the ends cannot be whitespace
        def ws(p, first):
            if p[0] == 'lit':
                return p[1][0 if first else -1].isspace()
            if p[0] == 'run':
                return p[1].isspace()
            if p[0] == 'int':
                return False
            return None
        if not S.parts:
            return ''
        a, b = ws(S.parts[0], True), ws(S.parts[-1], False)
        if a is False and b is False and S.parts[0][0] in ('lit', 'int') and S.parts[-1][0] in ('lit', 'int'):
            return S
        raise Unsupported('strip on a string whose ends may be whitespace')
    if name == 'split':
        sep = args[0] if args else None
        maxsplit = args[1] if len(args) > 1 else kwargs.get('maxsplit', -1)
        if isinstance(sep, str) and len(sep) == 1:
            return rl_split(I, S, sep, maxsplit)
        raise Unsupported('split')
    if name == 'startswith':
        p = args[0]
        if isinstance(p, str) and S.parts and S.parts[0][0] == 'lit' and len(S.parts[0][1]) >= len(p):
            return S.parts[0][1].startswith(p)
        return I.loops.str_startswith(I, S, p)
    if name == 'endswith':
        p = args[0]
        if isinstance(p, str) and S.parts and S.parts[-1][0] == 'lit' and len(S.parts[-1][1]) >= len(p):
            return S.parts[-1][1].endswith(p)
        if isinstance(p, str) and len(p) == 1 and len(S.parts) == 1 and S.parts[0][0] == 'sym' and is_sym(S.parts[0][1]):
            j = I.pipes.joins.get(S.parts[0][1].get_id())
            if j is not None:
                # sep.join(P) cannot end with a character that occurs in no element when every element is non-empty (its last
                # character is then the last character of the last element; the empty sequence joins to '')
                pipe, sep, _ = j
                from .loops import _pointwise
                has_c = I.pipes.observable(pipe.with_stage('filter', _pointwise(I, lambda v: I.contains(v, p))), 'ne')
                has_empty = I.pipes.observable(pipe.with_stage('filter', _pointwise(I, lambda v: _not(I.truth(I.compare_len_positive(v))))), 'ne')
                if I.provably_false(has_c) and I.provably_false(has_empty):
                    I.oblige('unify', 'endswith:no-element-has-it', _and(_not(has_c), _not(has_empty)))
                    return False
        return I.loops.str_endswith(I, S, p)
    if name == 'splitlines' and not args:
        from .interp import Opaque
        return Opaque('lines', (s,))
    if name in ('isnumeric', 'isdigit', 'isalpha'):
        raise Unsupported(f'{name} on symbolic string')
    raise Unsupported(f'str.{name} on symbolic string')


class PartialSplit:
    """the result of str.split of which only the first pieces are known (a later part of the text may contain the separator any
    number of times): indexing the known pieces from the front is exact, everything else leaves the subset"""
    def __init__(self, known):
        self.known = known


def rl_split(I, S: SStr, sep: str, maxsplit):
    """split on a single character for template strings: the separator occurs in literal parts, and opaque parts are shown not to
    contain it (element invariants of joined sequences, assumptions of the contract); when an opaque part may contain it, only the
    pieces closed before that part are known (PartialSplit)."""
    from .interp import _not
    for p in S.parts:
        if p[0] == 'run' and p[1] == sep:
            raise Unsupported('split: separator inside a run')
        if p[0] == 'int' and sep in '-0123456789':
            raise Unsupported('split: separator may occur in str(int)')
    pieces, cur, n = [], [], 0
    partial = False
    for p in S.parts:
        if p[0] == 'sym':
            occurs = I.contains(SStr([p]), sep)
            if not I.provably_false(occurs):
                if os.environ.get('PYVC_DEBUG'):
                    print('split: cannot show that', repr(sep), 'does not occur in', p, '; pieces known so far:', len(pieces))
                if not pieces:
                    raise Unsupported('split of opaque string')
                partial = True
                break
            I.oblige('unify', 'split:separator-free-part', _not(I.truth(occurs)))
            cur.append(p)
            continue
        if p[0] != 'lit':
            cur.append(p)
            continue
        text = p[1]
        while True:
            i = text.find(sep)
            if i < 0 or (maxsplit is not None and maxsplit >= 0 and n >= maxsplit):
                cur.append(('lit', text))
                break
            cur.append(('lit', text[:i]))
            pieces.append(cur)
            cur = []
            n += 1
            text = text[i + 1:]
    if not partial:
        pieces.append(cur)
    out = []
    for pc in pieces:
        s = SStr([q for q in pc if not (q[0] == 'lit' and q[1] == '')])
        c = s.concrete()
        out.append(c if c is not None else s)
    return PartialSplit(out) if partial else out


def str_join(I, sep, xs):
    from .seq import SSeq
    if isinstance(xs, SSeq):
        return I.loops.seq_join(I, sep, xs)
    if isinstance(xs, GList):
        if all(g is True for g, _ in xs.items):
            xs = [v for _, v in xs.items]
        else:
            raise Unsupported('join of a guarded list')
    if isinstance(xs, SStr):
        if sep == '':
            return xs
        raise Unsupported('join over characters of a symbolic string')
    items = I.iterate(xs)
    out = ''
    for i, x in enumerate(items):
        if not isinstance(x, (str, SStr)):
            I.raise_py('TypeError')
        if i > 0:
            out = str_concat(out, sep)
        out = str_concat(out, x)
    return out
